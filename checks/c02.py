"""C02 -- every generated scene satisfies all of its requirements.

Runtime monitoring of the real sampler on generated multi-object programs:
  (1) event log: `SamplingRequirement.falsifiedBy` and `SampleChecker.checkRequirements` are wrapped; for every
      candidate sample the ordered list (requirement, optional, result) is recorded.  Invariant: an accepted
      candidate has every active, non-optional requirement of the scenario evaluated with result "not falsified".
  (2) post-condition on `Scenario.generate`: the returned scene is re-verified by the independent oracle
      (rt.geomoracle for overlap and containment, analytic occlusion / range arguments for visibility, plain
      Python for the user predicates, soft ones only when selected for that sample).
  (3) adversarial clock: `scenic.core.sample_checking.time` is replaced by scripted clocks so that the
      WeightedAcceptanceChecker walks through many requirement orderings; BasicChecker with both
      initialCollisionCheck settings is driven as well.
"""

import math

import numpy as np

PROPERTY = "C02"
LEVEL = "exploration"
RULE = (
    "generated programs with 3-7 objects (box / cylinder / cone / hull / L / U shapes, random sizes, sampled 3D "
    "poses in box regions larger than their containers, random allowCollisions, regionContainedIn, workspaces: none / "
    "box / polygon with holes / non-convex mesh), hard and soft user requirements over positions and distances, "
    "requireVisible, several `visible from` / `not visible from` observers with an occluding wall; each scenario is "
    "sampled 16-115 times under one of 3 checkers x 6 clock scripts.  A scenario is non-trivial when it produced both "
    "rejected and accepted candidates and at least one built-in and one user requirement were evaluated; distinct = "
    "distinct (program, checker, clock) triples."
)
ASSUMPTIONS = [
    "scene oracle: rt.geomoracle certified answers (eps 1e-4); only definite answers count",
    "visibility oracle decides only: target wholly beyond visibleDistance (invisible); every sight line to the target blocked by one convex occluder lying strictly in front of a separating plane (invisible); target wholly within range with no occluder touching the hull of viewpoint+target and full view angles (visible)",
    "user predicates are re-evaluated in Python from the positions of the scene's objects",
    "object i of the program is scene.objects[i]; pose read back from position/yaw/pitch/roll of the scene object",
]
MIN_COUNTERS = {
    "quick": {
        "scenes_accepted": 700,
        "candidates_rejected": 1500,
        "invariant_checks": 700,
        "oracle_pairs_definite_disjoint": 2000,
        "oracle_containment_definite_in": 1000,
        "oracle_user_predicates": 900,
        "oracle_soft_active": 100,
        "oracle_visibility_definite": 80,
        "distinct_orderings": 150,
        "candidates_with_optional_dropped": 50,
        "checker.WeightedAcceptanceChecker": 20,
        "checker.BasicChecker": 10,
        "clock_scripted_scenarios": 15,
        "req_eval.IntersectionRequirement": 3000,
        "req_eval.ContainmentRequirement": 1500,
        "req_eval.VisibilityRequirement": 100,
        "req_eval.CompiledRequirement": 1500,
        "req_eval.BlanketCollisionRequirement": 300,
    },
}
MIN_COUNTERS["thorough"] = {k: v * 8 for k, v in MIN_COUNTERS["quick"].items()}

CLOCKS = ("real", "zero", "lognormal", "alternating", "first_slow", "decreasing")
CHECKERS = ("weighted", "weighted", "weighted", "basic_cc", "basic_nocc")


def plan(tier, seed):
    n = 16 if tier == "quick" else 64
    scen = 5 if tier == "quick" else 8
    env = {"MALLOC_MMAP_THRESHOLD_": "33554432", "MALLOC_TRIM_THRESHOLD_": "1073741824", "MALLOC_TOP_PAD_": "67108864"}
    return [{"shard": i, "scenarios": scen, "timeout": 1500 if tier == "quick" else 3400, "env": env} for i in range(n)]


# ---------------------------------------------------------------------------------------------
# scripted clock
# ---------------------------------------------------------------------------------------------
class FakeTime:
    """Stands in for the `time` module inside scenic.core.sample_checking: perf_counter() is called twice per
    requirement evaluation (start, end); the duration between the two is scripted."""

    def __init__(self, script, seed):
        import random

        self.script = script
        self.rng = random.Random(seed)
        self.now = 0.0
        self.calls = 0

    def perf_counter(self):
        self.calls += 1
        if self.calls % 2 == 0:  # end of an evaluation
            k = self.calls // 2
            s = self.script
            if s == "zero":
                d = 0.0
            elif s == "lognormal":
                d = self.rng.lognormvariate(-7, 2.5)
            elif s == "alternating":
                d = 1e-2 if k % 2 else 1e-6
            elif s == "first_slow":
                d = 1.0 if k % 7 == 1 else 1e-5
            elif s == "decreasing":
                d = 1.0 / k
            else:
                d = 1e-4
            self.now += d
        return self.now

    def __getattr__(self, name):
        import time

        return getattr(time, name)


# ---------------------------------------------------------------------------------------------
# program generation
# ---------------------------------------------------------------------------------------------
def _f(x):
    return repr(float(x))


class GObj:
    def __init__(self, name, spec, dims):
        self.name = name
        self.spec = spec
        self.dims = tuple(float(d) for d in dims)
        self.allow = False
        self.container = None  # region tree of regionContainedIn (else workspace)
        self.require_visible = False
        self.visible_from = None  # index of observer
        self.not_visible_from = None
        self.occluding = True
        self.fixed_pose = None


def gen_scenario(seed, shard, index, attempt=0):
    from rt import geomgen as gg
    from rt import geomoracle as go
    from scenic.core.regions import BoxRegion

    rng = np.random.default_rng([int(seed), int(shard), int(index), 202, int(attempt)])
    gg.reset()
    R = gg.registry.REGIONS
    lines = ["import verif_geom as G"]
    meta = {"workspace": None, "user": [], "objs": []}
    arena = float(rng.uniform(6.0, 10.0))
    centre = np.zeros(3)

    # --- workspace ---------------------------------------------------------------------------
    wk = str(rng.choice(["none", "box", "polygon", "mesh", "box"]))
    wtree = None
    if wk == "box":
        dims = (arena, arena, float(rng.uniform(2.5, 5.0)))
        R[len(R)] = BoxRegion(dimensions=dims, position=(0, 0, 0))
        solid, _ = gg._primitive("box")
        wtree = ("vol", solid.unit().placed(dims, (0, 0, 0), np.eye(3)))
    elif wk == "polygon":
        out = None
        for _ in range(6):
            out = gg.foot_region(rng, (0, 0, 0), arena, as_polygonal=True)
            if out is not None:
                break
        if out is None:
            wk = "none"
        else:
            wtree, reg, _d = out
            R[len(R)] = reg
    elif wk == "mesh":
        tree, reg, _d = gg.vol_region(rng, str(rng.choice(["L", "U", "cross"])), (0, 0, 0), arena * 0.8)
        wtree = tree
        R[len(R)] = reg
    if wk != "none":
        lines.append("workspace = Workspace(G.region(0))")
    meta["workspace"] = wk

    # --- sampling region (a box a bit larger than the arena, so containment does get violated) -------
    zspan = float(rng.uniform(1.0, 3.0))
    sdims = (arena * 1.06, arena * 1.06, zspan)
    sid = len(R)
    R[sid] = BoxRegion(dimensions=sdims, position=(0, 0, 0))

    objs = []
    n = int(rng.integers(3, 7))
    kinds = ["box", "box", "box", "cyl", "cone", "hull", "L", "U"]
    # ego: fixed pose near the centre (must satisfy its own containment: keep it small and central)
    for i in range(n):
        kind = str(rng.choice(kinds))
        for _ in range(5):
            try:
                spec = gg.random_shape(rng, kind)
                break
            except (ValueError, AssertionError):
                spec = None
        if spec is None:
            spec = gg.random_shape(rng, "box")
        base = float(rng.uniform(0.35, 1.1))
        dims = tuple(float(base * f) for f in rng.uniform(0.4, 1.0, 3))
        o = GObj(f"o{i}", spec, dims)
        o.allow = bool(rng.random() < 0.2)
        objs.append(o)
    # per-object containers
    for o in objs[1:]:
        if rng.random() < 0.25:
            ck = str(rng.choice(["boxregion", "boxregion", "hullmesh", "L"]))
            try:
                tree, reg, _d = gg.vol_region(rng, ck, rng.uniform(-1, 1, 3) * np.array([1, 1, 0.2]), arena * 0.7)
            except (ValueError, AssertionError):
                continue
            rid = len(R)
            R[rid] = reg
            o.container = (tree, rid)
    # visibility block
    vis = rng.random() < 0.45
    wall = None
    if vis and n >= 4:
        # objs[0] (ego) and objs[1] are observers at fixed places on the -y side; a wall at y ~ 0; targets sampled anywhere
        meta["vis"] = True
        dist = float(rng.uniform(3.0, 6.0))
        for k, o in enumerate(objs[:2]):
            o.fixed_pose = ((-1.5 + 3.0 * k + float(rng.uniform(-0.3, 0.3)), -arena * 0.3, 0.0), (0.0, 0.0, 0.0))
            o.vis_dist = dist
            o.dims = (0.4, 0.4, 0.4)
            o.container = None
            o.spec = gg.random_shape(rng, "box")
        wall = GObj("wall", gg.random_shape(rng, "box"), (arena * float(rng.uniform(0.35, 0.6)), 0.3, zspan * 1.5 + 1.0))
        wall.fixed_pose = ((float(rng.uniform(-0.5, 0.5)), -arena * 0.3 + 1.2, 0.0), (0.0, 0.0, 0.0))
        wall.allow = True
        objs.append(wall)
        order = list(range(2, n))
        rng.shuffle(order)
        # at least two `visible from` (different observers) so that the 2nd one's occluder list matters
        roles = ["vf0", "vf1", "nvf0", "rv", "vf1"]
        for idx, role in zip(order, roles):
            t = objs[idx]
            if role == "vf0":
                t.visible_from = 0
            elif role == "vf1":
                t.visible_from = 1
            elif role == "nvf0" and wk != "none":
                t.not_visible_from = 0
            elif role == "rv":
                t.require_visible = True
            t.dims = tuple(min(d, 0.6) for d in t.dims)
    else:
        meta["vis"] = False
        # ego fixed at the centre so that programs without random ego still compile
        epos = (0.0, 0.0, 0.0)
        if wtree is not None and wk in ("mesh", "polygon"):
            c0 = wtree[1][int(rng.integers(len(wtree[1])))].V.mean(axis=0)
            epos = (float(c0[0]), float(c0[1]), float(c0[2]) if len(c0) > 2 else 0.0)
        objs[0].fixed_pose = (epos, (float(rng.uniform(-3, 3)), 0.0, 0.0))
        objs[0].dims = tuple(min(d, 0.5) for d in objs[0].dims)
        objs[0].container = None

    full3d = rng.random() < 0.6
    for i, o in enumerate(objs):
        specs = []
        if o.fixed_pose is not None:
            p, ypr = o.fixed_pose
            specs.append(f"at ({_f(p[0])}, {_f(p[1])}, {_f(p[2])})")
            specs.append(f"facing ({_f(ypr[0])}, {_f(ypr[1])}, {_f(ypr[2])})")
        else:
            if o.visible_from is not None:
                specs.append(f"visible from {objs[o.visible_from].name}")
            if o.not_visible_from is not None:
                specs.append(f"not visible from {objs[o.not_visible_from].name}")
            specs.append(f"in G.region({sid})")
            if full3d and rng.random() < 0.7:
                specs.append("facing (Range(-3.1, 3.1), Range(-1.5, 1.5), Range(-3.1, 3.1))")
            else:
                specs.append("facing (Range(-3.1, 3.1), 0, 0)")
        specs.append(f"with shape {o.spec.src}")
        specs.append(f"with width {_f(o.dims[0])}, with length {_f(o.dims[1])}, with height {_f(o.dims[2])}")
        if o.allow:
            specs.append("with allowCollisions True")
        if o.container is not None:
            specs.append(f"with regionContainedIn G.region({o.container[1]})")
        if o.require_visible:
            specs.append("with requireVisible True")
        else:
            specs.append("with requireVisible False")
        if hasattr(o, "vis_dist"):
            specs.append(f"with visibleDistance {_f(o.vis_dist)}")
        name = "ego" if i == 0 else o.name
        o.name = name
        lines.append(f"{name} = new Object " + ", ".join(specs))
        o.line = len(lines)
    # user requirements
    movable = [i for i, o in enumerate(objs) if o.fixed_pose is None]
    user = []
    for _ in range(int(rng.integers(1, 4))):
        if len(movable) < 2:
            break
        kind = str(rng.choice(["dist_gt", "dist_lt", "x_gt", "x_order", "z_lt"]))
        i, j = (int(x) for x in rng.choice(movable, 2, replace=False))
        prob = None if rng.random() < 0.55 else float(rng.choice([0.3, 0.5, 0.8]))
        head = "require" if prob is None else f"require[{prob}]"
        if kind == "dist_gt":
            d = float(rng.uniform(1.0, 3.0))
            text = f"(distance from {objs[i].name} to {objs[j].name}) > {_f(d)}"
            user.append(("dist_gt", i, j, d, prob))
        elif kind == "dist_lt":
            d = float(rng.uniform(arena * 0.5, arena))
            text = f"(distance from {objs[i].name} to {objs[j].name}) < {_f(d)}"
            user.append(("dist_lt", i, j, d, prob))
        elif kind == "x_gt":
            d = float(rng.uniform(-arena * 0.3, 0.0))
            text = f"{objs[i].name}.position.x > {_f(d)}"
            user.append(("x_gt", i, None, d, prob))
        elif kind == "x_order":
            text = f"{objs[i].name}.position.x > {objs[j].name}.position.x"
            user.append(("x_order", i, j, None, prob))
        else:
            d = float(rng.uniform(0.0, zspan * 0.4))
            text = f"{objs[i].name}.position.z < {_f(d)}"
            user.append(("z_lt", i, None, d, prob))
        lines.append(f"{head} {text}")
        user[-1] = user[-1] + (len(lines),)
    meta["user"] = user
    meta["wtree"] = wtree
    return {"source": "\n".join(lines) + "\n", "objs": objs, "meta": meta}


# ---------------------------------------------------------------------------------------------
# scene oracle
# ---------------------------------------------------------------------------------------------
def _world(o, so):
    from rt import geomoracle as go

    pos = (float(so.position.x), float(so.position.y), float(so.position.z))
    ypr = (float(so.yaw), float(so.pitch), float(so.roll))
    return o.spec.world(o.dims, pos, ypr), pos, ypr


def _viewpoint(so):
    p = so.position
    return np.array([float(p.x), float(p.y), float(p.z)])


def visibility_oracle(view, dist, target_world, occluders):
    """True (definitely visible) / False (definitely invisible) / None."""
    from rt import geomoracle as go

    eps = 1e-3
    V = np.vstack([P.V for P in target_world])
    dmin_lo = min(go.gjk_bracket(view[None, :], P.V)[0] for P in target_world)
    if dmin_lo > dist + eps:
        return False
    # blocked by one convex occluder W: a plane separates {view} + W from the target, and every sight line to a
    # target vertex crosses W (then every sight line to any target point does, before reaching the plane)
    for occ in occluders:
        for W in occ:
            # plane: use each facet of W as candidate (view inside side or not), need view and W on one side, target strictly on the other
            for a, b in zip(W.A, W.b):
                # W satisfies a.x <= b ; target must satisfy a.x >= b + eps ; view must satisfy a.x < b
                if (V @ a).min() > b + eps and view @ a < b - eps:
                    ok = True
                    for v in V:
                        if not _segment_hits(view, v, W):
                            ok = False
                            break
                    if ok:
                        return False
    # definitely visible: whole target in range, nothing near the sight cone
    dmax = float(np.linalg.norm(V - view, axis=1).max())
    if dmax < dist - eps:
        hull = np.vstack([V, view[None, :]])
        clear = True
        for occ in occluders:
            for W in occ:
                lo, hi = go.gjk_bracket(hull, W.V)
                if lo <= 0.05:
                    clear = False
        if clear:
            return True
    return None


def _segment_hits(p, q, W, margin=1e-6):
    """Does the closed segment p->q pass through the interior region of convex W (with margin)?"""
    d = q - p
    t0, t1 = 0.0, 1.0
    for a, b in zip(W.A, W.b):
        ad = float(a @ d)
        ap = float(a @ p) - (b - margin)
        if abs(ad) < 1e-14:
            if ap > 0:
                return False
            continue
        t = -ap / ad
        if ad > 0:
            t1 = min(t1, t)
        else:
            t0 = max(t0, t)
        if t0 > t1:
            return False
    return t1 - t0 > 1e-9


def check_scene(sc, scene, active_lines, res, bump, wit):
    """Post-condition on one accepted scene.  Appends violations."""
    from rt import geomoracle as go

    objs = sc["objs"]
    meta = sc["meta"]
    if len(scene.objects) != len(objs):
        res["violations"].append({"key": None, "what": "scene object count differs from the program", "witness": wit})
        return
    worlds = []
    for o, so in zip(objs, scene.objects):
        W, pos, ypr = _world(o, so)
        worlds.append((W, pos, ypr))
        if abs(so.width - o.dims[0]) > 1e-9:
            res["violations"].append({"key": None, "what": "scene object order differs from the program", "witness": wit})
            return

    def viol(what, key=None, **extra):
        w = dict(wit)
        w.update(extra)
        w["poses"] = [(p, y) for _, p, y in worlds]
        res["violations"].append({"key": key, "what": what, "witness": w})

    # overlap
    for i in range(len(objs)):
        for j in range(i):
            if objs[i].allow or objs[j].allow:
                continue
            ans, info = go.overlap(worlds[i][0], worlds[j][0])
            if ans is None:
                bump("oracle_pairs_near_touching")
                res["skipped"]["near-touching pair"] = res["skipped"].get("near-touching pair", 0) + 1
            elif ans is False:
                bump("oracle_pairs_definite_disjoint")
            else:
                bump("oracle_pairs_definite_overlap")
                viol(f"accepted scene has {objs[j].name} ({objs[j].spec.kind}) and {objs[i].name} ({objs[i].spec.kind}) overlapping (depth {info['depth']:.3g}), neither allows collisions", pair=[j, i])
    # containment
    for i, o in enumerate(objs):
        tree = o.container[0] if o.container is not None else meta["wtree"]
        if tree is None:
            continue
        ans = go.tree_contains(tree, worlds[i][0])
        if ans is None:
            bump("oracle_containment_near_boundary")
            res["skipped"]["near-boundary containment"] = res["skipped"].get("near-boundary containment", 0) + 1
        elif ans:
            bump("oracle_containment_definite_in")
        else:
            bump("oracle_containment_definite_out")
            which = "regionContainedIn" if o.container is not None else f"workspace ({meta['workspace']})"
            viol(f"accepted scene has {o.name} ({o.spec.kind}) sticking out of its {which}", obj=i)
    # user predicates
    P = [np.array(w[1]) for w in worlds]
    for kind, i, j, d, prob, line in meta["user"]:
        if prob is not None and line not in active_lines:
            bump("oracle_soft_inactive")
            continue
        if prob is not None:
            bump("oracle_soft_active")
        bump("oracle_user_predicates")
        if kind == "dist_gt":
            ok = np.linalg.norm(P[i] - P[j]) > d
        elif kind == "dist_lt":
            ok = np.linalg.norm(P[i] - P[j]) < d
        elif kind == "x_gt":
            ok = P[i][0] > d
        elif kind == "x_order":
            ok = P[i][0] > P[j][0]
        else:
            ok = P[i][2] < d
        if not ok:
            viol(f"accepted scene violates user requirement on line {line}: {kind} {objs[i].name} {objs[j].name if j is not None else ''} {d} (prob={prob})", line=line)
    # visibility
    if meta.get("vis"):
        occl = [(k, worlds[k][0]) for k, o in enumerate(objs) if o.occluding]
        first_vis = True
        for i, o in enumerate(objs):
            for role, obs in (("visible_from", o.visible_from), ("require_visible", 0 if o.require_visible else None), ("not_visible_from", o.not_visible_from)):
                if obs is None:
                    continue
                view = _viewpoint(scene.objects[obs])
                dist = float(scene.objects[obs].visibleDistance)
                others = [W for k, W in occl if k not in (i, obs)]
                ans = visibility_oracle(view, dist, worlds[i][0], others)
                if ans is None:
                    bump("oracle_visibility_undecided")
                    continue
                bump("oracle_visibility_definite")
                bump(f"oracle_visibility.{role}.{'visible' if ans else 'invisible'}")
                if role in ("visible_from", "require_visible") and ans is False:
                    key = None
                    nth = [k for k, x in enumerate(objs) if x.visible_from is not None].index(i) if role == "visible_from" else -1
                    blocked_by_range = min(go.gjk_bracket(view[None, :], Pp.V)[0] for Pp in worlds[i][0]) > dist
                    if role == "visible_from" and nth >= 1 and not blocked_by_range:
                        # confirmed only if the requirement built for this (observer, target) really has an
                        # empty occluder list although the program contains occluding objects
                        scn = sc.get("scenario")
                        vr = [r for r in (scn.defaultRequirements if scn is not None else ()) if type(r).__name__ == "VisibilityRequirement" and r.target is scn.objects[i] and r.source is scn.objects[obs]]
                        if vr and all(len(r.potential_occluders) == 0 for r in vr):
                            key = "visibility.occluders-one-shot-iterator"
                    viol(f"accepted scene: {o.name} must be visible from {objs[obs].name} ({role}, #{nth} in program order) but every sight line is blocked / it is out of range", key, obj=i, observer=obs)
                if role == "not_visible_from" and ans is True:
                    viol(f"accepted scene: {o.name} must not be visible from {objs[obs].name} but it is in range with nothing in between", obj=i, observer=obs)


# ---------------------------------------------------------------------------------------------
# driving one scenario
# ---------------------------------------------------------------------------------------------
class Hooks:
    """Event log at SamplingRequirement.falsifiedBy / SampleChecker.checkRequirements."""

    def __init__(self):
        self.cand = None
        self.last = None
        self.installed = False

    def install(self):
        import scenic.core.requirements as rq
        import scenic.core.sample_checking as scx

        hooks = self
        self._orig_f = rq.SamplingRequirement.falsifiedBy
        self._orig_c = scx.SampleChecker.checkRequirements

        def falsifiedBy(req, sample):
            r = hooks._orig_f(req, sample)
            if hooks.cand is not None:
                hooks.cand.append((req, bool(req.optional), bool(r)))
            return r

        def checkRequirements(checker, sample):
            hooks.cand = []
            try:
                out = hooks._orig_c(checker, sample)
            finally:
                log, hooks.cand = hooks.cand, None
            hooks.last = (log, out)
            hooks.on_candidate(checker, log, out)
            return out

        rq.SamplingRequirement.falsifiedBy = falsifiedBy
        scx.SampleChecker.checkRequirements = checkRequirements
        self.installed = True

    def uninstall(self):
        import scenic.core.requirements as rq
        import scenic.core.sample_checking as scx

        if self.installed:
            rq.SamplingRequirement.falsifiedBy = self._orig_f
            scx.SampleChecker.checkRequirements = self._orig_c
            self.installed = False

    def on_candidate(self, checker, log, out):
        pass


def run_scenario(seed, shard, index, res, bump, orderings, n_scenes=None):
    import random

    import scenic.core.sample_checking as scx
    from rt import su
    from scenic.core.distributions import RejectionException
    from scenic.core.sample_checking import BasicChecker, WeightedAcceptanceChecker

    rng = random.Random(seed * 7919 + shard * 131 + index)
    checker_kind = CHECKERS[index % len(CHECKERS)]
    clock = CLOCKS[(index + shard) % len(CLOCKS)] if checker_kind == "weighted" else "real"
    scenario = None
    for attempt in range(4):
        sc = gen_scenario(seed, shard, index, attempt)
        wit0 = {"seed": seed, "shard": shard, "index": index, "attempt": attempt}
        try:
            scenario = su.compile_scenic(sc["source"])
            break
        except Exception as e:
            bump("compile_rejected")
            msg = f"{type(e).__name__}: {str(e)[:160]}"
            res["skipped"]["program rejected at compile time"] = res["skipped"].get("program rejected at compile time", 0) + 1
            if type(e).__name__ not in ("InvalidScenarioError", "RejectionException"):
                res["violations"].append({"key": None, "what": f"program failed to compile: {msg}", "witness": wit0})
                return
    if scenario is None:
        return
    sc["scenario"] = scenario
    bump("scenarios")
    bump(f"workspace.{sc['meta']['workspace']}")
    if len(res["samples"]) < 2:
        res["samples"].append({"program": sc["source"], "checker": checker_kind, "clock": clock})
    if checker_kind == "basic_cc":
        scenario.setSampleChecker(BasicChecker(True))
    elif checker_kind == "basic_nocc":
        scenario.setSampleChecker(BasicChecker(False))
    bump(f"checker.{type(scenario.checker).__name__}")
    bump(f"clock.{clock}")
    all_reqs = list(scenario.defaultRequirements) + list(scenario.userRequirements)
    req_index = {id(r): k for k, r in enumerate(all_reqs)}
    user_line = {id(r): r.line for r in scenario.userRequirements}

    # informative only (the deciding monitor for occlusion is the scene oracle): how many (non)visibility
    # requirements were built with an empty occluder list although the program has occluding objects
    n_occ = sum(1 for o in sc["objs"] if o.occluding)
    for r in all_reqs:
        if type(r).__name__ in ("VisibilityRequirement", "NonVisibilityRequirement"):
            bump("visibility_requirements")
            if n_occ > 2 and len(r.potential_occluders) == 0:
                bump("visibility_requirements_with_empty_occluder_list")

    hooks = Hooks()
    state = {"acc": 0, "rej": 0, "classes": set(), "viol_reported": 0}

    def on_candidate(checker, log, out):
        for req, opt, r in log:
            bump(f"req_eval.{type(req).__name__}")
            state["classes"].add(type(req).__name__)
        order = tuple(req_index.get(id(req), -1) for req, _, _ in log)
        orderings.add((shard, index, order))
        if out is None:
            state["acc"] += 1
            bump("invariant_checks")
            seen = {id(req): r for req, _, r in log}
            for r in all_reqs:
                if r.optional or not r.active:
                    continue
                if id(r) not in seen:
                    if state["viol_reported"] < 3:
                        state["viol_reported"] += 1
                        res["violations"].append({"key": None, "what": f"candidate accepted although the active mandatory requirement {type(r).__name__} was never evaluated (checker {type(checker).__name__}, clock {clock}, evaluated {[type(q).__name__ for q, _, _ in log]})", "witness": dict(wit0)})
                elif seen[id(r)]:
                    if state["viol_reported"] < 3:
                        state["viol_reported"] += 1
                        res["violations"].append({"key": None, "what": f"candidate accepted although {type(r).__name__} was falsified", "witness": dict(wit0)})
            active_opt = [r for r in all_reqs if r.optional and r.active]
            if any(id(r) not in seen for r in active_opt):
                bump("candidates_with_optional_dropped")
        else:
            state["rej"] += 1
            # a rejected candidate must have a falsified requirement last (or a RejectionException)
            if log and not log[-1][2] and not isinstance(out, Exception):
                if state["viol_reported"] < 3:
                    state["viol_reported"] += 1
                    res["violations"].append({"key": None, "what": "candidate rejected although no evaluated requirement was falsified", "witness": dict(wit0)})

    hooks.on_candidate = on_candidate
    hooks.install()
    real_time = scx.time
    if clock != "real":
        scx.time = FakeTime(clock, seed * 31 + shard * 7 + index)
        bump("clock_scripted_scenarios")
    n = n_scenes or (115 if (index % 4 == 0 and checker_kind == "weighted") else 16)
    su.seed_all(seed * 100003 + shard * 1009 + index)
    got = 0
    fails = 0
    try:
        for k in range(n):
            try:
                scene, its = scenario.generate(maxIterations=200, verbosity=0)
            except RejectionException:
                fails += 1
                bump("generate_gave_up")
                if fails >= 2:
                    break
                continue
            except Exception as e:  # noqa
                res["violations"].append({"key": None, "what": f"generate raised {type(e).__name__}: {str(e)[:200]}", "witness": dict(wit0)})
                break
            got += 1
            res["evaluations"] += 1
            bump("scenes_accepted")
            active_lines = {r.line for r in scenario.userRequirements if r.active}
            wit = dict(wit0)
            wit["scene"] = k
            nv = len(res["violations"])
            check_scene(sc, scene, active_lines, res, bump, wit)
            if len(res["violations"]) > nv + 0 and len(res["violations"]) > 40:
                break
    finally:
        scx.time = real_time
        hooks.uninstall()
    bump("candidates_rejected", state["rej"])
    if state["acc"] and state["rej"] and (state["classes"] & {"IntersectionRequirement", "ContainmentRequirement", "VisibilityRequirement"}) and "CompiledRequirement" in state["classes"]:
        from rt import su as _su

        res["nontrivial"].append(_su.h([sc["source"], checker_kind, clock]))


def run_shard(spec):
    from rt import geomgen

    res = {"evaluations": 0, "nontrivial": [], "counters": {}, "samples": [], "violations": [], "skipped": {}}
    C = res["counters"]

    def bump(k, n=1):
        C[k] = C.get(k, 0) + n

    geomgen.calm_thread_pools()
    hang = geomgen.hang_dump(PROPERTY, spec)
    orderings = set()
    for i in range(spec["scenarios"]):
        run_scenario(spec["seed"], spec["shard"], i, res, bump, orderings)
    geomgen.hang_dump_done(hang)
    bump("distinct_orderings", len(orderings))
    # de-duplicate violations per (key, what-prefix)
    seen = {}
    out = []
    for v in res["violations"]:
        sig = (v["key"], v["what"][:60], v["witness"].get("index"))
        seen[sig] = seen.get(sig, 0) + 1
        if seen[sig] <= 2:
            out.append(v)
    res["violations"] = out[:80]
    return res


def replay(w):
    res = {"evaluations": 0, "nontrivial": [], "counters": {}, "samples": [], "violations": [], "skipped": {}}
    run_scenario(w["seed"], w["shard"], w["index"], res, lambda k, n=1: None, set())
    return res["violations"]


MANIFEST_ENTRY = {
    "technique": "runtime monitoring: requirement-evaluation event log (invariant at SampleChecker.checkRequirements) + post-condition on Scenario.generate decided by an independent scene oracle, under scripted clocks and all checkers",
    "text": "Generated multi-object programs (random shapes, sampled 3D poses, collision flags, containers, workspaces, hard/soft user requirements, requireVisible / visible from / not visible from with an occluding wall) are sampled 30-160 times each. Every candidate's ordered requirement evaluations are logged through wrappers on SamplingRequirement.falsifiedBy and SampleChecker.checkRequirements: an accepted candidate must have every active mandatory requirement evaluated and not falsified, whatever ordering the WeightedAcceptanceChecker derived from the scripted clock. Every returned scene is re-verified: pairwise overlap and containment by rt.geomoracle, user predicates in Python, visibility by range/occlusion arguments (definite cases only).",
    "note": "Trusts rt.geomoracle, the pose read back from the scene objects, and the mapping program object i = scene.objects[i]. Visibility is decided only in analytically clear configurations; everything else is counted as undecided.",
}


# thorough-tier floors: the quick-tier floors scaled by a conservative fraction of the size ratio of the two tiers
# (counters of *distinct* things do not scale with the size and keep their quick-tier floor)
_NONSCALING = ('distinct_orderings', 'checker.WeightedAcceptanceChecker', 'checker.BasicChecker', 'clock_scripted_scenarios', 'oracle_visibility_definite', 'candidates_with_optional_dropped', 'req_eval.VisibilityRequirement', 'oracle_soft_active')
MIN_COUNTERS["thorough"] = {k: (v if k in _NONSCALING else int(v * 3)) for k, v in MIN_COUNTERS["quick"].items()}
