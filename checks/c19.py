"""C19 — do choose / do shuffle / run-time random values follow the stated probabilities.

Exact RNG-branch enumeration through the REAL Simulator.simulate (rt/rngenum.py) of generated programs;
the exact distribution over (which items ran, when, in which order | rejection) is compared with a
closed-form reference computed from the generator's own AST.
"""

from fractions import Fraction
import itertools
import random

PROPERTY = "C19"
LEVEL = "exploration"
RULE = (
    "seeded programs with 2-4 sub-behaviours or sub-scenarios per `do choose` / `do shuffle` (weighted dict "
    "form or unweighted), step-dependent preconditions read from a scripted truth table, nested choose/"
    "shuffle, sequences, and run-time draws (DiscreteRange / Uniform / Discrete, dependent draws) in "
    "behaviors and compose blocks; ALL RNG outcomes of each real simulation are enumerated exactly. "
    "Non-trivial = the reference distribution has >= 2 outcomes; distinct = distinct (source, table)."
)
ASSUMPTIONS = [
    "reference: choose = weight / sum of enabled weights at the current step; shuffle = sequential weighted sampling without replacement among enabled not-yet-run items, no eligible item => rejection; run-time draws independent",
    "items log ('run', id, step) through the scripted module; preconditions are pure reads of the truth table",
]
MIN_COUNTERS = {
    "quick": {"cases_compared": 150, "rng_leaves": 1500, "kind_choose": 40, "kind_shuffle": 40, "kind_draw": 20, "with_rejection": 15, "with_disabled_items": 40, "scenario_form": 30},
    "thorough": {"cases_compared": 3000, "rng_leaves": 30000, "kind_choose": 800, "kind_shuffle": 800, "kind_draw": 400, "with_rejection": 300, "with_disabled_items": 800, "scenario_form": 500},
}
MANIFEST_ENTRY = {
    "technique": "runtime monitoring: exact RNG-branch enumeration of real simulations vs closed-form reference distribution",
    "text": "Generated behaviours/scenarios using do choose / do shuffle (weighted and unweighted, nested, with step-dependent preconditions) and run-time distribution draws are run through the real Simulator.simulate once per RNG branch (random.* scripted), giving the exact distribution of the event log or rejection; compared as exact rationals with the reference (weight/sum over enabled; sequential sampling without replacement; deadlock => reject; independent product for draws). Bounded by program size (<= 4 items per statement, depth 2) and <= 3000 RNG leaves per case.",
    "note": "Trusts the reference in this file and rt/rngenum.py. Zero weights are excluded from the workload (proportional-to-weight is undefined when all enabled weights are zero).",
}

ONE = Fraction(1)

# ---- AST -------------------------------------------------------------------------------------------------
# ("leaf", id, dur, pre)                  pre: atom index or None
# ("choose", [items], weights|None, pre)  composite item (behaviour/scenario wrapping a do choose)
# ("shuffle", [items], weights|None, pre)
# ("draw", id, spec)                      spec: list of draw descriptors (behaviour form only)
# Main body: list of ("wait", k) | ("do", item) | ("dochoose", items, weights) | ("doshuffle", items, weights) | ("draw", id, spec)


def gen_case(rng, scenario_form):
    ids = itertools.count()
    natoms = 3

    def leaf():
        dur = rng.choice([1, 1, 2])
        pre = rng.randrange(natoms) if rng.random() < 0.6 else None
        return ("leaf", next(ids), dur, pre)

    def weights(n):
        if rng.random() < 0.5:
            return None
        return [rng.choice([1, 2, 3, 0.5, 0.25, 1.5]) for _ in range(n)]

    def item(depth):
        r = rng.random()
        if depth <= 0 or r < 0.7:
            return leaf()
        n = rng.randint(2, 3)
        kind = "choose" if rng.random() < 0.5 else "shuffle"
        pre = rng.randrange(natoms) if rng.random() < 0.4 else None
        return (kind, [item(depth - 1) for _ in range(n)], weights(n), pre, next(ids))

    def draw():
        spec = []
        for _ in range(rng.randint(1, 3)):
            k = rng.choice(["dr", "uni", "disc", "dep"])
            if k == "dr":
                lo = rng.randint(0, 2)
                spec.append(("dr", lo, lo + rng.randint(0, 2)))
            elif k == "uni":
                spec.append(("uni", rng.sample(range(10, 20), rng.randint(2, 3))))
            elif k == "disc":
                vals = rng.sample(range(20, 30), rng.randint(2, 3))
                spec.append(("disc", vals, [rng.choice([1, 2, 0.5, 3]) for _ in vals]))
            else:
                spec.append(("dep", rng.randint(1, 2)))  # DiscreteRange(0, previous draw or constant)
        return ("draw", next(ids), spec)

    body = []
    if rng.random() < 0.5:
        body.append(("wait", rng.randint(1, 2)))
    for _ in range(rng.randint(1, 2)):
        r = rng.random()
        n = rng.randint(2, 4)
        if r < 0.45:
            body.append(("dochoose", [item(1) for _ in range(n)], weights(n)))
        elif r < 0.85:
            n = min(n, 3)
            body.append(("doshuffle", [item(1) for _ in range(n)], weights(n)))
        elif not scenario_form:
            body.append(draw())
        else:
            body.append(("do", item(1)))
        if rng.random() < 0.3 and not scenario_form:
            body.append(draw())
    L = 48
    table = [[rng.random() < 0.6 for _ in range(L)] for _ in range(natoms)]
    return {"scenario_form": scenario_form, "body": body, "table": table}


# ---- source printing ---------------------------------------------------------------------------------------


def _name(it):
    return f"I{it[1] if it[0] in ('leaf', 'draw') else it[4]}"


def _collect(it, out):
    out.append(it)
    if it[0] in ("choose", "shuffle"):
        for x in it[1]:
            _collect(x, out)


def _invoke(items, ws):
    if ws is None:
        return ", ".join(f"{_name(x)}()" for x in items)
    return "{" + ", ".join(f"{_name(x)}(): {w!r}" for x, w in zip(items, ws)) + "}"


def _draw_lines(d, indent):
    lines = []
    prev = "2"
    names = []
    for j, sp in enumerate(d[2]):
        v = f"d{j}"
        if sp[0] == "dr":
            lines.append(f"{v} = DiscreteRange({sp[1]}, {sp[2]})")
        elif sp[0] == "uni":
            lines.append(f"{v} = Uniform({', '.join(map(str, sp[1]))})")
        elif sp[0] == "disc":
            lines.append(f"{v} = Discrete({{{', '.join(f'{a}: {w!r}' for a, w in zip(sp[1], sp[2]))}}})")
        else:
            lines.append(f"{v} = DiscreteRange(0, min({prev}, {sp[1]} + 1))")
        prev = v
        names.append(v)
    lines.append(f"V.ev('draw', ({d[1]}, ({', '.join(names)},)))")
    return [indent + l for l in lines]


def source(case):
    sf = case["scenario_form"]
    items = []
    for st in case["body"]:
        if st[0] == "do":
            _collect(st[1], items)
        elif st[0] in ("dochoose", "doshuffle"):
            for x in st[1]:
                _collect(x, items)
    lines = ["import verif_script as V"]
    kw = "scenario" if sf else "behavior"
    for it in reversed(items):
        lines.append(f"{kw} {_name(it)}():")
        pre = it[3]
        if pre is not None:
            lines.append(f"    precondition: V.a({pre})")
        ind = "    "
        if sf:
            lines.append("    compose:")
            ind = "        "
        if it[0] == "leaf":
            if it[2] == 0:
                lines.append(f"{ind}V.ev('run', {it[1]})")
            else:
                lines.append(f"{ind}for _i in range({it[2]}):")
                lines.append(f"{ind}    V.ev('run', {it[1]})")
                lines.append(f"{ind}    " + ("wait" if sf else f"take {it[1]}"))
        else:
            lines.append(f"{ind}V.ev('enter', {it[4]})")
            lines.append(f"{ind}do {it[0]} {_invoke(it[1], it[2])}")
    lines.append(f"{kw} Main():")
    ind = "    "
    if sf:
        lines += ["    setup:", "        ego = new Object", "    compose:"]
        ind = "        "
    for st in case["body"]:
        if st[0] == "wait":
            lines.append(f"{ind}for _i in range({st[1]}):")
            lines.append(f"{ind}    wait")
        elif st[0] == "do":
            lines.append(f"{ind}do {_name(st[1])}()")
        elif st[0] == "dochoose":
            lines.append(f"{ind}do choose {_invoke(st[1], st[2])}")
        elif st[0] == "doshuffle":
            lines.append(f"{ind}do shuffle {_invoke(st[1], st[2])}")
        elif st[0] == "draw":
            lines += _draw_lines(st, ind)
    lines.append(f"{ind}V.ev('done')")
    if sf:
        lines.append(f"{ind}wait")
    else:
        lines.append(f"{ind}terminate")
        lines.append("ego = new Object with behavior Main()")
    return "\n".join(lines) + "\n"


# ---- reference semantics -------------------------------------------------------------------------------------
REJ = "REJECT"


def _pre_ok(it, t, table):
    pre = it[3]
    return pre is None or (t < len(table[pre]) and table[pre][t])


def ref_item(it, t, table):
    """item started at time t (its precondition is checked here). yields (events|REJ, t_end, prob)"""
    if not _pre_ok(it, t, table):
        yield REJ, t, ONE
        return
    if it[0] == "leaf":
        d = it[2]
        if d == 0:
            yield [("run", it[1], t)], t, ONE
        else:
            yield [("run", it[1], t + j) for j in range(d)], t + d, ONE
        return
    head = [("enter", it[4], t)]
    gen = ref_choose if it[0] == "choose" else ref_shuffle
    for ev, te, p in gen(it[1], it[2], t, table):
        yield (REJ if ev is REJ else head + ev), te, p


def ref_choose(items, ws, t, table):
    ws = ws or [1] * len(items)
    en = [(x, Fraction(w)) for x, w in zip(items, ws) if _pre_ok(x, t, table)]
    if not en:
        yield REJ, t, ONE
        return
    tot = sum(w for _, w in en)
    for x, w in en:
        for ev, te, p in ref_item(x, t, table):
            yield ev, te, p * w / tot


def ref_shuffle(items, ws, t, table):
    ws = ws or [1] * len(items)
    pairs = list(zip(items, [Fraction(w) for w in ws]))

    def rec(rem, t):
        if not rem:
            yield [], t, ONE
            return
        en = [(i, x, w) for i, (x, w) in enumerate(rem) if _pre_ok(x, t, table)]
        if not en:
            yield REJ, t, ONE
            return
        tot = sum(w for _, _, w in en)
        for i, x, w in en:
            rest = rem[:i] + rem[i + 1 :]
            for ev, te, p in ref_item(x, t, table):
                if ev is REJ:
                    yield REJ, te, p * w / tot
                    continue
                for ev2, te2, p2 in rec(rest, te):
                    yield (REJ if ev2 is REJ else ev + ev2), te2, p * w / tot * p2

    yield from rec(pairs, t)


def ref_draw(d, t):
    def rec(j, prev, vals):
        if j == len(d[2]):
            yield tuple(vals), ONE
            return
        sp = d[2][j]
        if sp[0] == "dr":
            opts = [(v, Fraction(1, sp[2] - sp[1] + 1)) for v in range(sp[1], sp[2] + 1)]
        elif sp[0] == "uni":
            opts = [(v, Fraction(1, len(sp[1]))) for v in sp[1]]
        elif sp[0] == "disc":
            tot = sum(Fraction(w) for w in sp[2])
            opts = [(v, Fraction(w) / tot) for v, w in zip(sp[1], sp[2])]
        else:
            hi = min(prev, sp[1] + 1)
            opts = [(v, Fraction(1, hi + 1)) for v in range(0, hi + 1)]
        for v, p in opts:
            for vals2, q in rec(j + 1, v, vals + [v]):
                yield vals2, p * q

    for vals, p in rec(0, 2, []):
        yield [("draw", (d[1], vals), t)], t, p


def reference(case):
    table = case["table"]

    def rec(k, t):
        if k == len(case["body"]):
            yield [("done", None, t)], ONE
            return
        st = case["body"][k]
        if st[0] == "wait":
            yield from rec(k + 1, t + st[1])
            return
        if st[0] == "do":
            g = ref_item(st[1], t, table)
        elif st[0] == "dochoose":
            g = ref_choose(st[1], st[2], t, table)
        elif st[0] == "doshuffle":
            g = ref_shuffle(st[1], st[2], t, table)
        else:
            g = ref_draw(st, t)
        for ev, te, p in g:
            if ev is REJ:
                yield REJ, p
                continue
            for ev2, q in rec(k + 1, te):
                yield (REJ if ev2 is REJ else ev + ev2), p * q

    dist = {}
    for ev, p in rec(0, 0):
        key = ("reject",) if ev is REJ else tuple(ev)
        dist[key] = dist.get(key, 0) + p
    return dist


# ---- real execution -----------------------------------------------------------------------------------------


def real(case, scenario):
    from rt import rngenum, su
    from scenic.core.simulators import DummySimulator

    su.script.TABLE = {i: row for i, row in enumerate(case["table"])}
    su.script.EXTRA["mode"] = "bool"
    scene, _ = scenario.generate(maxIterations=1)
    sim = DummySimulator()

    def canon(x):
        if isinstance(x, (list, tuple)):
            return tuple(canon(y) for y in x)
        return x

    def run():
        su.script.LOG.clear()
        res = sim.simulate(scene, maxSteps=44, maxIterations=1, verbosity=0)
        if res is None:
            return ("reject",)
        return tuple(canon(e) for e in su.script.LOG if e[0] in ("run", "enter", "draw", "done"))

    en = rngenum.Enumerator(max_leaves=3000)
    dist, leaves = rngenum.distribution(en, run)
    return dist, leaves, en.calls


def plan(tier, seed):
    n_cases = 256 if tier == "quick" else 4096
    n_sh = 16 if tier == "quick" else 64
    return [{"shard": i, "cases": n_cases // n_sh, "timeout": 1500 if tier == "quick" else 3400} for i in range(n_sh)]


def _has_disabled(case):
    # some listed item of a choose/shuffle is disabled at time 0..5 (cheap proxy measured on the table)
    for st in case["body"]:
        if st[0] in ("dochoose", "doshuffle"):
            for x in st[1]:
                if x[3] is not None and not all(case["table"][x[3]][:6]):
                    return True
    return False


def check_case(case, res, bump):
    from rt import rngenum, su
    import scenic

    src = source(case)
    try:
        scenario = scenic.scenarioFromString(src)
    except Exception as e:
        return [(None, f"compile failed: {type(e).__name__}: {str(e)[:200]}")], src, False
    try:
        dist, leaves, calls = real(case, scenario)
    except rngenum.TooManyLeaves:
        res["skipped"]["too-many-leaves"] = res["skipped"].get("too-many-leaves", 0) + 1
        return [], src, False
    except rngenum.OutOfFragment as e:
        res["skipped"]["out-of-fragment"] = res["skipped"].get("out-of-fragment", 0) + 1
        return [], src, False
    except Exception as e:
        return [(None, f"simulation raised {type(e).__name__}: {str(e)[:200]}")], src, False
    res["evaluations"] += leaves
    bump("rng_leaves", leaves)
    bump("cases_compared")
    for n, c in calls.items():
        bump("rngcalls_" + n, c)
    ref = {k: p for k, p in reference(case).items() if p != 0}
    dist = {k: p for k, p in dist.items() if p != 0}
    if ("reject",) in ref:
        bump("with_rejection")
    viol = []
    if sum(dist.values()) != 1:
        viol.append((None, f"leaf probabilities sum to {sum(dist.values())}"))
    if dist != ref:
        keys = sorted([k for k in set(dist) | set(ref) if dist.get(k) != ref.get(k)], key=repr)
        detail = "; ".join(f"{k}: real={dist.get(k, 0)} ref={ref.get(k, 0)}" for k in keys[:3])
        viol.append((None, f"exact distribution differs on {len(keys)} outcome(s): {detail}"))
    return viol, src, len(ref) >= 2


def run_shard(spec):
    from rt import su

    res = {"evaluations": 0, "nontrivial": [], "counters": {}, "samples": [], "violations": [], "skipped": {}}
    C = res["counters"]

    def bump(k, n=1):
        C[k] = C.get(k, 0) + n

    for i in range(spec["cases"]):
        cseed = (spec["seed"] * 1000003 + spec["shard"]) * 100003 + i
        rng = random.Random(cseed)
        case = gen_case(rng, scenario_form=rng.random() < 0.35)
        viol, src, nontrivial = check_case(case, res, bump)
        if case["scenario_form"]:
            bump("scenario_form")
        else:
            bump("behavior_form")
        kinds = set(st[0] for st in case["body"])
        for k, nm in (("dochoose", "kind_choose"), ("doshuffle", "kind_shuffle"), ("draw", "kind_draw")):
            if k in kinds:
                bump(nm)
        if any(st[0] in ("dochoose", "doshuffle") and any(x[0] != "leaf" for x in st[1]) for st in case["body"]):
            bump("nested")
        if any(st[0] in ("dochoose", "doshuffle") and st[2] is not None for st in case["body"]):
            bump("weighted")
        if _has_disabled(case):
            bump("with_disabled_items")
        if nontrivial:
            res["nontrivial"].append(su.h([src, case["table"]]))
            if len(res["samples"]) < 2:
                res["samples"].append({"program": src, "table": [[int(b) for b in r] for r in case["table"]], "reference": [f"{k}: {p}" for k, p in list(reference(case).items())[:6]]})
        for key, what in viol:
            res["violations"].append({"key": key, "what": what + " || " + src.replace("\n", " ; ")[:900], "witness": {"cseed": cseed}})
    return res


def replay(w):
    rng = random.Random(w["cseed"])
    case = gen_case(rng, scenario_form=rng.random() < 0.35)
    res = {"evaluations": 0, "skipped": {}}
    viol, src, _ = check_case(case, res, lambda *a: None)
    return [{"key": k, "what": what, "witness": w} for k, what in viol]
