"""C03 — points drawn in/on a region lie in it and are uniform.

Runtime monitoring of the real samplers: `uniformPointInner` of every region class is wrapped (per-class
call counters, result sanity) and driven on generated primitive regions and on the results of
intersect / union / difference of every ordered pair of region kinds (which includes the `visible` /
`not visible` restrictions = intersection / difference with a view volume, sector or disc, and
point-set x region intersections).  Each drawn point must be a member of the region per an oracle built
from the construction data (all three coordinates); uniformity is decided by a two-sample chi-square
homogeneity test between the draws and an oracle-generated uniform reference sample, over equal-count
k-d cells of the reference (alpha = 1e-9, fixed seeds), plus an unreachable-cell test; discrete regions
are decided exactly by enumerating the sampler's single discrete RNG call.
"""

import math

import numpy as np

PROPERTY = "C03"
LEVEL = "exploration"
RULE = (
    "every sampler class with random parameters (box, spheroid, non-convex / multi-body mesh volume, mesh surface, "
    "polygon with holes / several components at z in {0, 3.5, -2}, disc, sector 10-350 degrees, rectangle, polyline, 3D path, "
    "point set, grid, voxel, view volume) and the result of intersect/union/difference for every ordered pair of the 17 kinds; "
    "N draws per region (class-dependent), reference = oracle's own uniform sample of the (composed) set. A case is non-trivial "
    "when >= 200 draws were compared with the reference over >= 4 cells, or a discrete sampler was enumerated exactly over >= 2 "
    "points; distinct = distinct (kinds, operation, parameters)."
)
ASSUMPTIONS = [
    "oracle membership and uniform reference samples from construction data (rt/regionoracle.py); draws within the margin of a boundary are not judged",
    "Scenic's samplers consume the global random / numpy.random state: seeded per case from the shard seed (part of the workload)",
    "chi-square homogeneity (draws vs 4x larger reference sample) with alpha = 1e-9; cells with expected count >= 40 must be hit",
    "discrete samplers make exactly one discrete RNG call (randrange/choice) per draw: enumerated exhaustively, each branch equiprobable",
    "composed sets whose oracle reference cannot be produced (measure-zero intersections, unbounded operands) are only checked for membership",
]
MIN_COUNTERS = {
    "quick": {"regions_sampled": 500, "draws_checked_for_membership": 250000, "uniformity_tests": 300, "operand_signature_tests": 250, "discrete_enumerations": 25, "composed_regions_sampled": 400, "visible_restrictions_sampled": 10, "not_visible_restrictions_sampled": 10, "pointset_intersections_enumerated": 8},
    "thorough": {"regions_sampled": 2000, "draws_checked_for_membership": 6000000, "uniformity_tests": 1200, "operand_signature_tests": 800, "discrete_enumerations": 120, "composed_regions_sampled": 1500, "visible_restrictions_sampled": 60, "not_visible_restrictions_sampled": 60, "pointset_intersections_enumerated": 30},
}
MANIFEST_ENTRY = {
    "technique": "runtime monitoring: wrapped samplers + membership contract against a construction-data oracle; two-sample chi-square over oracle-built equal-count cells; exact enumeration of discrete samplers' RNG branches",
    "text": "Region.uniformPointInner of every class is wrapped and driven on random primitive regions and on intersect/union/difference results for all ordered pairs of region kinds (covering visible/not-visible restrictions and point-set x region intersections). Every draw must be a member (x, y and z) of the oracle's set; draws are compared with an oracle-generated uniform reference by a chi-square homogeneity test (alpha 1e-9, fixed seeds) and an unreachable-cell test; point-set/grid samplers are enumerated exactly. Bounded exploration.",
    "note": "Trusts rt/regionoracle.py (membership, reference sampling by rejection with numpy RNG), scipy chi2; draws near boundaries (margin 2e-3) are not judged; statistical power is limited to deviations of roughly >= 10% of a cell's probability at the quick tier.",
}

FAST = ("PolygonalRegion", "CircularRegion", "SectorRegion", "RectangularRegion", "PolylineRegion", "PathRegion", "PointSetRegion", "GridRegion", "VoxelRegion")
ALPHA = 1e-9


def budgets(tier):
    # draws for fast samplers, for mesh samplers, attempt cap for generic composite samplers
    # (+ the same two numbers for composite samplers one of whose operands is mesh-based: ~20-50 ms per attempt)
    return (1500, 90, 1000, 90, 160) if tier == "quick" else (20000, 300, 14000, 300, 600)


def plan(tier, seed):
    from rt import regionoracle as ro

    nsh = 16 if tier == "quick" else 64
    tasks = []
    n_prim = 3 if tier == "quick" else 20
    n_pair = 1 if tier == "quick" else 3
    for k in ro.KINDS:
        if k in ("all", "empty", "footprint"):
            continue
        for inst in range(n_prim):
            tasks.append(["prim", k, k, inst])
    for ka in ro.KINDS:
        for kb in ro.KINDS:
            for inst in range(n_pair):
                tasks.append(["pair", ka, kb, inst])
    # designed heavy-overlap operands for the generic union / intersection samplers (no specialised union exists
    # for voxel grids): B is A's occupancy pattern re-drawn on the same lattice, shifted by one cell
    for inst in range(3 if tier == "quick" else 24):
        tasks.append(["overlap", "voxel", "voxel", inst])
    shards = [{"shard": s, "tasks": [], "timeout": 1500 if tier == "quick" else 3400} for s in range(nsh)]
    for i, t in enumerate(tasks):
        shards[(i * 5 + i // nsh) % nsh]["tasks"].append(t)
    return shards


# ------------------------------------------------------------------------------------------------
class Mon:
    def __init__(self, case, C, S):
        self.case, self.C, self.S = case, C, S
        self.viol = []
        self.seen = set()
        self.nontrivial = False

    def bump(self, k, n=1):
        self.C[k] = self.C.get(k, 0) + int(n)

    def skip(self, k, n=1):
        self.S[k] = self.S.get(k, 0) + int(n)

    def report(self, check, what, info=None):
        info = info or {}
        key = classify(check, info, self.case)
        sig = (check, key, info.get("op"))
        if sig in self.seen:
            return
        self.seen.add(sig)
        w = dict(self.case)
        w["check"] = check
        w["key"] = key
        w["op"] = info.get("op")
        self.viol.append({"key": key, "what": f"[{check}] {what}"[:1000], "witness": w})


def classify(check, info, case):
    ka, kb = case["A"]["kind"], case["B"]["kind"]
    op, rc = info.get("op"), info.get("rclass")
    err = info.get("error") or ""
    kinds = {ka, kb}
    planar = {"polygon", "circle", "sector", "rect"}
    if info.get("z_lost"):
        return f"polygon.{OPN.get(op, op)}-result-rebuilt-at-z0"
    if check == "sampler.error" and "has no attribute 'circumcircle'" in err and kinds & {"pointset", "grid"}:
        return "pointset.intersection-sampler-requires-circumcircle"
    if check == "op.error" and "RecursionError" in err and op == "and" and ka in ("pointset", "grid") and kb in ("pointset", "grid"):
        return "pointset.intersect-pointset-infinite-recursion"
    if check == "sampler.error" and "ZeroDivisionError" in err and rc == "UnionRegion" and "polyline" in kinds:
        return "union.genericSampler-zero-containment-count-for-polyline-sample"
    if check == "never-succeeds" and op == "or" and rc == "PolygonalRegion" and "polyline" in kinds:
        return "union.piecewise-orientation-rejects-samples-outside-oriented-operand"
    if check in ("uniformity", "never-succeeds") and "grid" in kinds and op in ("or", "sub") and rc in ("UnionRegion", "DifferenceRegion"):
        return "grid.cell-membership-inconsistent-with-pointset-measure"
    if "grid" in kinds and kinds <= {"grid", "pointset"} and check in ("member", "discrete.unreachable", "discrete.nonuniform", "empty"):
        return "grid.cell-membership-inconsistent-with-pointset-measure"
    if info.get("pointset_ignores_z"):
        return "pointset.intersection-sampler-ignores-height-of-planar-operand"
    if info.get("sector_circumcircle"):
        return "sector.circumcircle-radius-times-cos-half-angle"
    if info.get("sector_trunc"):
        return "sector.polygon-mask-truncates-angles-over-120deg"
    if info.get("polyline_exact"):
        return "polyline.containsPoint-exact-predicate-misses-own-points"
    planar_nz = [d["kind"] in planar and (d["params"].get("z") if d["kind"] == "polygon" else d["params"]["c"][2]) != 0 for d in (case["A"], case["B"])]
    if "polyline" in kinds and any(planar_nz) and ka != kb and op in ("and", "sub") and rc in ("PolylineRegion", "PointSetRegion", "EmptyRegion"):
        return f"polygon-polyline.{OPN[op]}-ignores-height"
    if op == "or" and rc == "PolygonalRegion":
        if "footprint" in kinds and kinds & planar:
            return "polygon.union-treats-footprint-as-flat-polygon"
        if "polyline" in kinds and kinds & planar:
            return "polygon.union-drops-polyline-operand"
    return None


OPN = {"and": "intersect", "or": "union", "sub": "difference"}

_WRAPPED = {}


def install_wrappers(counters):
    """wrap uniformPointInner of every Region class defined in scenic.core.regions (monitor: per-class call counts,
    the result must be a 3-vector of finite floats)"""
    import scenic.core.regions as R

    if _WRAPPED:
        _WRAPPED["C"] = counters
        return
    _WRAPPED["C"] = counters
    _WRAPPED["bad"] = []
    for name in dir(R):
        cls = getattr(R, name)
        if isinstance(cls, type) and issubclass(cls, R.Region) and "uniformPointInner" in cls.__dict__ and not getattr(cls.__dict__["uniformPointInner"], "__isabstractmethod__", False):
            orig = cls.__dict__["uniformPointInner"]

            def wrapper(self, _orig=orig, _name=name):
                C = _WRAPPED["C"]
                k = "sampler_calls_" + type(self).__name__
                C[k] = C.get(k, 0) + 1
                out = _orig(self)
                try:
                    ok = len(out) == 3 and all(math.isfinite(float(c)) for c in out)
                except Exception:
                    ok = False
                if not ok:
                    _WRAPPED["bad"].append((type(self).__name__, repr(out)[:100]))
                return out

            setattr(cls, "uniformPointInner", wrapper)


# ------------------------------------------------------------------------------------------------
def n_draws(rc, R, tier):
    fast, mesh, cap, cmesh, ccap = budgets(tier)
    if rc in FAST:
        return fast, None
    if rc in ("IntersectionRegion", "UnionRegion", "DifferenceRegion"):
        ops = list(getattr(R, "regions", ())) or [R.regionA, R.regionB]
        if any(type(o).__name__ not in FAST for o in ops):
            return cmesh, ccap
        return fast, cap  # as many as the attempt cap yields
    return mesh, None


def draw_points(R, n, cap):
    """(points, attempts, rejections, error, unsupported)"""
    from rt.regionrun import arr, outcome

    pts, rej, tries = [], 0, 0
    limit = cap if cap is not None else 25 * n + 200
    while len(pts) < n and tries < limit:
        tries += 1
        k, v = outcome(R.uniformPointInner)
        if k == "ok":
            try:
                pts.append(arr(v))
            except Exception as e:  # noqa
                return np.array(pts).reshape(-1, 3), tries, rej, f"result is not a vector: {v!r}"[:200], None
        elif k == "reject":
            rej += 1
        elif k == "unsupported":
            return np.array(pts).reshape(-1, 3), tries, rej, None, v
        else:
            return np.array(pts).reshape(-1, 3), tries, rej, v, None
    return np.array(pts).reshape(-1, 3), tries, rej, None, None


def check_sampler(mon, R, O, tier, rng, label, op=None, extra=None):
    """R: real region; O: oracle of the set it must represent"""
    from rt import regionoracle as ro
    from rt.regionrun import enumerate_discrete, outcome

    rc = type(R).__name__
    info = dict(extra or {}, op=op, rclass=rc)
    mon.bump("regions_sampled")
    mon.bump(f"sampled_{rc}")
    if op is not None:
        mon.bump("composed_regions_sampled")
    # --- discrete samplers: exact
    discrete = rc in ("PointSetRegion", "GridRegion") or (rc == "IntersectionRegion" and getattr(R, "sampler", None) is not None)
    if discrete:
        k, res = outcome(enumerate_discrete, R)
        if k == "reject":
            # empty intersection: legitimate iff the oracle has no definite member among the points
            pts_o = _pointset_members(O)
            if pts_o is not None and len(pts_o[0]):
                mon.report("discrete.unreachable", f"{label}: sampler rejects (no candidate) but {len(pts_o[0])} of the point set's members belong to the set, e.g. {fmt(pts_o[0][0])}", dict(info, **_mech(mon, R, O, pts_o[0][0], False)))
            else:
                mon.bump("discrete_empty_agreed")
            return
        if k == "unsupported":
            mon.bump("sampler_unsupported")
            return
        if k != "ok":
            mon.report("sampler.error", f"{label}: {rc}.uniformPointInner raised {res}", dict(info, error=res))
            return
        pts, arity = res
        if arity is None:
            mon.skip("discrete_no_rng_call")
            return
        mon.bump("discrete_enumerations")
        if rc == "IntersectionRegion":
            mon.bump("pointset_intersections_enumerated")
        P = np.array(pts)
        mon.bump("draws_checked_for_membership", len(P))
        m = O.member(P)
        if (m == 0).any():
            p = P[m == 0][0]
            mon.report("member", f"{label}: the sampler can produce {fmt(p)} which is not in the set", dict(info, **_mech(mon, R, O, p, True)))
        # uniform over distinct points: every outcome distinct, and every definite member reachable
        uniq = np.unique(np.round(P, 9), axis=0)
        if len(uniq) != len(P):
            mon.report("discrete.nonuniform", f"{label}: {len(P)} equiprobable outcomes yield only {len(uniq)} distinct points (some points are over-weighted)", info)
        pts_o = _pointset_members(O)
        if pts_o is not None:
            must, may = pts_o
            got = {tuple(np.round(q, 7)) for q in P}
            missing = [q for q in must if tuple(np.round(q, 7)) not in got]
            if missing:
                mon.report("discrete.unreachable", f"{label}: member {fmt(missing[0])} (and {len(missing) - 1} more of {len(must)}) can never be produced; the sampler has {arity} outcomes", dict(info, **_mech(mon, R, O, missing[0], False)))
            if len(P) >= 2:
                mon.nontrivial = True
        return
    # --- continuous samplers
    from rt.regionrun import Watchdog, sampling_cost_guard, with_watchdog

    costly = sampling_cost_guard(R)
    if costly:
        # unbounded rejection loops of the library on sliver-like regions: not driven (counted)
        mon.skip("sampler_not_driven_" + costly.replace(" ", "_"))
        return
    n, cap = n_draws(rc, R, tier)
    try:
        P, tries, rej, err, unsup = with_watchdog(600, draw_points, R, n, cap)
    except Watchdog:
        mon.skip("sampler_watchdog")
        return
    mon.bump("sampler_attempts", tries)
    mon.bump("sampler_rejections", rej)
    if unsup:
        mon.bump("sampler_unsupported")
        return
    if err:
        mon.report("sampler.error", f"{label}: {rc}.uniformPointInner raised {err}", dict(info, error=err))
        return
    ref = None
    k, ref = outcome(O.sample, rng, max(4 * max(len(P), 500), 4000))
    if k != "ok":
        ref = None
    if len(P) == 0:
        if ref is not None and tries >= 500:
            # estimate the acceptance the oracle would have from the operand Scenic samples
            mon.report("never-succeeds", f"{label}: {tries} attempts of {rc}.uniformPointInner were all rejected although the set has positive measure (e.g. {fmt(ref[0])} belongs to it)", dict(info, **_mech(mon, R, O, ref[0], False)))
        else:
            mon.skip("no_draws_and_no_reference")
        return
    mon.bump("draws_checked_for_membership", len(P))
    m = O.member(P)
    mon.skip("draws_near_boundary", int((m == -1).sum()))
    if (m == 0).any():
        p = P[m == 0][0]
        zinfo = {}
        if rc == "PolygonalRegion" and O.planar_z is not None and O.planar_z != 0 and getattr(R, "z", None) == 0:
            zinfo["z_lost"] = True
        mon.report("member", f"{label}: drew {fmt(p)} which is not in the set ({int((m == 0).sum())} of {len(P)} draws outside)", dict(info, **zinfo, **_mech(mon, R, O, p, True)))
        return
    if O.planar_z is not None and (np.abs(P[:, 2] - O.planar_z) > 1e-9).any():
        mon.report("member.z", f"{label}: drew a point at z = {P[np.abs(P[:, 2] - O.planar_z) > 1e-9][0][2]} from a planar set at z = {O.planar_z}", info)
        return
    if ref is None or len(ref) < 1000:
        mon.skip("no_oracle_reference_sample")
        return
    if len(P) < 90:
        mon.skip("too_few_draws_for_uniformity")
        return
    if (O.member(ref[:2000]) == -1).mean() > 0.05:
        # e.g. a planar operand lying exactly in a face plane of a voxel grid: membership of the whole set is
        # within the margin, the reference sample is not trustworthy
        mon.skip("reference_sample_ill_conditioned")
        return
    kcells = int(min(32, max(2, len(P) // 45)))
    assign = ro.kd_cells(ref, kcells)
    cr, ncell = assign(ref)
    cp, _ = assign(P)
    rcnt = np.bincount(cr, minlength=ncell)
    pcnt = np.bincount(cp, minlength=ncell)
    mon.bump("uniformity_tests")
    mon.bump("uniformity_cells", ncell)
    if ncell >= 4:
        mon.nontrivial = True
    expected = rcnt / rcnt.sum() * len(P)
    dead = np.where((expected >= 40) & (pcnt == 0))[0]
    stat, df, pval = ro.homogeneity(rcnt, pcnt)
    if O.kind == "combo":
        # second partition, by which operands contain the point (A only / B only / both): operand-weighting and
        # multiplicity errors of composed samplers show up here even when they are spatially fine-grained
        sr = O.A.nominal(ref).astype(int) * 2 + O.B.nominal(ref).astype(int)
        sp = O.A.nominal(P).astype(int) * 2 + O.B.nominal(P).astype(int)
        # draws that are in neither operand by the *nominal* (two-valued) membership are boundary-margin cases
        # (definitely-outside draws are reported by the membership contract above): leave them out here
        n_neither = int((sp == 0).sum())
        if n_neither:
            mon.skip("signature_draws_in_boundary_margin", n_neither)
        sr, sp = sr[sr != 0], sp[sp != 0]
        if len(sp) < 30 or len(sr) < 30:
            return
        s2, df2, p2 = ro.homogeneity(np.bincount(sr, minlength=4), np.bincount(sp, minlength=4))
        mon.bump("operand_signature_tests")
        if p2 < ALPHA and p2 < pval:
            names = {1: "B only", 2: "A only", 3: "both", 0: "neither"}
            fr = np.bincount(sr, minlength=4) / len(sr)
            fp = np.bincount(sp, minlength=4) / len(sp)
            desc = ", ".join(f"{names[i]}: expected {fr[i]:.3f} got {fp[i]:.3f}" for i in range(4) if fr[i] or fp[i])
            mon.report("uniformity", f"{label}: {len(P)} draws weight the operands' parts wrongly (natural measure of the composed set): {desc}; chi2 = {s2:.1f} (df {df2}, p = {p2:.2e})", dict(info, **_mech(mon, R, O, ref[0], False, ref)))
            return
    if len(dead) or pval < ALPHA:
        # locate the most under-represented cell for the report
        worst = int(np.argmin((pcnt + 1) / (expected + 1)))
        q = ref[cr == worst][0]
        over = int(np.argmax((pcnt + 1) / (expected + 1)))
        q2 = ref[cr == over][0]
        what = (
            f"{label}: {len(P)} draws are not uniform on the set: chi2 = {stat:.1f} (df {df}, p = {pval:.2e}); "
            f"cell around {fmt(q)} expected {expected[worst]:.0f} draws, got {pcnt[worst]}; cell around {fmt(q2)} expected {expected[over]:.0f}, got {pcnt[over]}"
            + (f"; {len(dead)} cell(s) of positive measure never hit" if len(dead) else "")
        )
        mon.report("uniformity", what, dict(info, **_mech(mon, R, O, q, False, ref)))


def _pointset_members(O):
    """for a set that is a point set (or point set combined with something): (points that must be reachable, points that may be)"""
    from rt import regionoracle as ro

    pts = None
    if O.kind in ("pointset", "grid"):
        pts = O.pts
        m = np.ones(len(pts), dtype=np.int8)
    elif O.kind == "combo" and O.op == "and":
        src = O.A if O.A.kind in ("pointset", "grid") else O.B if O.B.kind in ("pointset", "grid") else None
        if src is None:
            return None
        pts = src.pts
        m = O.member(pts)
    else:
        return None
    uniq = np.unique(np.round(pts[m == 1], 9), axis=0) if (m == 1).any() else np.zeros((0, 3))
    return uniq, pts[m == -1]


def _mech(mon, R, O, p, produced, ref=None):
    """mechanism probes (naming only) for a point that was wrongly produced / can never be produced"""
    out = {}
    case = mon.case
    try:
        if produced and type(R).__name__ == "IntersectionRegion" and getattr(R, "sampler", None) is not None:
            for X in (getattr(O, "A", None), getattr(O, "B", None)):
                if X is not None and X.kind in ("polygon", "rect") and abs(p[2] - X.planar_z) > 1e-9 and X.fmember(np.asarray(p, float)[None])[0] == 1:
                    out["pointset_ignores_z"] = True
        for d, X in ((case["A"], getattr(O, "A", O)), (case["B"], getattr(O, "B", None))):
            if X is None or d["kind"] != "sector":
                continue
            pr = d["params"]
            ang = pr["angle"]
            SX = mon.built.get(id(X))
            if SX is None:
                continue
            import shapely

            in_poly = bool(shapely.intersects_xy(SX.polygons, float(p[0]), float(p[1])))
            if ref is not None and ang > 2.0944 + 1e-3 and len(ref):
                outside = ~shapely.intersects_xy(SX.polygons, ref[:, 0], ref[:, 1])
                inref = X.nominal(ref)
                if (outside & inref).mean() > 0.02:
                    out["sector_trunc"] = True
            c, r = SX.circumcircle
            in_circ = math.hypot(p[0] - c[0], p[1] - c[1]) <= r
            inX = X.member(np.asarray(p, float)[None])[0] == 1
            if not produced and inX and not in_circ and type(R).__name__ == "IntersectionRegion" and getattr(R, "sampler", None) is not None:
                out["sector_circumcircle"] = True
            elif ang > 2.0944 + 1e-3 and inX != in_poly:
                out["sector_trunc"] = True
        if not produced and any(d["kind"] == "polyline" for d in (case["A"], case["B"])) and type(R).__name__ in ("IntersectionRegion", "UnionRegion", "DifferenceRegion"):
            out["polyline_exact"] = True
    except Exception:
        pass
    return out


def fmt(p):
    return "(" + ", ".join(f"{float(x):.6g}" for x in p) + ")"


def _short(X):
    s = str(X.params)
    return f"{X.kind}{s}" if len(s) < 240 else f"{X.kind}{s[:240]}..."


def gen_case(kind, ka, kb, inst, seed, tier):
    from checks import c16
    from rt import regionoracle as ro

    if kind == "prim":
        rng = np.random.default_rng([int(seed), 303, ro.KINDS.index(ka), int(inst)])
        d = ro.gen(ka, rng)
        return {"mode": "prim", "A": d, "B": d, "pseed": int(rng.integers(0, 2**31))}
    if kind == "overlap":
        rng = np.random.default_rng([int(seed), 909, int(inst)])
        dA = ro.gen("voxel", rng, z=0.0)
        pa = dA["params"]
        D = np.array(pa["dense"], bool)
        D2 = np.roll(D, 1, axis=0) | (rng.random(D.shape) < 0.25)
        D2[-1, -1, -1] = False
        pb = {"dense": D2.astype(int).tolist(), "pitch": pa["pitch"], "origin": [pa["origin"][0] + pa["pitch"], pa["origin"][1], pa["origin"][2]]}
        return {"mode": "pair", "A": dA, "B": {"kind": "voxel", "params": pb}, "relation": "designed-overlap", "pseed": int(rng.integers(0, 2**31)), "nprobe": 0}
    # instances disjoint from C16's; operands mostly overlapping (composed samplers are only interesting then)
    case = c16.gen_case(ka, kb, inst + 1000, seed, tier, p_far=0.04, p_nested=0.3, max_offset=1.1)
    case["mode"] = "pair"
    return case


def check_case(case, C, S, tier):
    from checks import c16
    from rt import regionoracle as ro
    from rt.regionrun import outcome, seed_global

    install_wrappers(C)
    mon = Mon(case, C, S)
    mon.built = {}
    rng = np.random.default_rng(case["pseed"])
    seed_global(case["pseed"] + 17)
    A = ro.make(case["A"])
    k, SA = outcome(A.build)
    if k != "ok":
        mon.report("build.error", f"constructor of {_short(A)} raised {SA}", {"error": str(SA)})
        return mon
    mon.built[id(A)] = SA
    if case["mode"] == "prim":
        check_sampler(mon, SA, A, tier, rng, f"{type(SA).__name__} {_short(A)}")
        # the same region with a random parameter, sampled through Region.uniformPointIn (the `in` specifier's path)
        if A.kind in c16.LAZYABLE:
            from scenic.core.regions import Region

            k, L = outcome(c16.build_lazy, A, "random")
            if k == "ok" and L is not None:
                dist = Region.uniformPointIn(L)
                pts = []
                for _ in range(25):
                    k2, v = outcome(dist.sample)
                    if k2 == "ok":
                        pts.append([float(v[0]), float(v[1]), float(v[2])])
                    elif k2 == "error":
                        mon.report("sampler.error", f"Region.uniformPointIn(<{A.kind} with a random parameter>).sample() raised {v}", {"error": v})
                        break
                if pts:
                    P = np.array(pts)
                    mon.bump("lazy_region_draws", len(P))
                    mon.bump("draws_checked_for_membership", len(P))
                    m = A.member(P)
                    if (m == 0).any():
                        mon.report("member", f"PointIn(<{A.kind} with a random parameter>) drew {fmt(P[m == 0][0])} which is not in {_short(A)}", {})
        return mon
    B = ro.make(case["B"])
    k, SB = outcome(B.build)
    if k != "ok":
        mon.report("build.error", f"constructor of {_short(B)} raised {SB}", {"error": str(SB)})
        return mon
    mon.built[id(B)] = SB
    for op in ("and", "or", "sub"):
        k, R = outcome(getattr(SA, OPN[op]), SB)
        if k == "unsupported":
            mon.bump("op_not_accepted")
            continue
        if k != "ok":
            mon.report("op.error", f"A.{OPN[op]}(B) raised {R}; A={_short(A)} B={_short(B)}", {"op": op, "error": R})
            continue
        rc = type(R).__name__
        if rc in ("AllRegion", "PolygonalFootprintRegion"):
            mon.bump("result_not_sampleable")
            continue
        O = ro.Combo(op, A, B)
        O.planar_z = c16.expected_height(op, A, B) if rc in ("PolygonalRegion", "CircularRegion", "SectorRegion", "RectangularRegion") else None
        label = f"A.{OPN[op]}(B) -> {rc}; A={_short(A)} B={_short(B)}"
        if B.kind in ("view", "sector", "circle") and A.kind not in ("all", "empty"):
            if op == "and":
                mon.bump("visible_restrictions_sampled")
            elif op == "sub":
                mon.bump("not_visible_restrictions_sampled")
        if rc == "EmptyRegion":
            k2, ref = outcome(O.sample, rng, 50)
            if k2 == "ok" and ref is not None and len(ref):
                mon.report("empty", f"A.{OPN[op]}(B) is empty, so nothing can be drawn, but e.g. {fmt(ref[0])} belongs to the set; A={_short(A)} B={_short(B)}", dict({"op": op, "rclass": rc}, **_mech(mon, R, O, ref[0], False)))
            else:
                mon.bump("empty_results_agreed_or_undecided")
            continue
        check_sampler(mon, R, O, tier, rng, label, op=op)
    return mon


def run_shard(spec):
    from rt import su

    tier = spec["tier"]
    res = {"evaluations": 0, "nontrivial": [], "counters": {}, "samples": [], "violations": [], "skipped": {}}
    for kind, ka, kb, inst in spec["tasks"]:
        case = gen_case(kind, ka, kb, inst, spec["seed"], tier)
        case["tier"] = tier
        mon = check_case(case, res["counters"], res["skipped"], tier)
        res["evaluations"] += 1
        if mon.nontrivial:
            res["nontrivial"].append(su.h([case["mode"], case["A"], case["B"]]))
            if len(res["samples"]) < 2:
                res["samples"].append({"mode": case["mode"], "A": case["A"], "B": case["B"] if case["mode"] == "pair" else None})
        res["violations"].extend(mon.viol)
    from rt import footprint_reuse

    v, c = footprint_reuse.run(spec["seed"] * 137 + spec["shard"], sample=True)
    res["violations"].extend(v)
    for k, n in c.items():
        res["counters"][k] = res["counters"].get(k, 0) + n
    if _WRAPPED.get("bad"):
        cls, rep = _WRAPPED["bad"][0]
        res["violations"].append({"key": None, "what": f"[wrapper] {cls}.uniformPointInner returned {rep}", "witness": {"check": "wrapper"}})
    return res


def replay(w):
    if w.get("check") == "footprint-reuse":
        from rt import footprint_reuse

        return footprint_reuse.run(w["seed"], sample=True)[0]
    if w.get("check") == "wrapper":
        return []
    case = {k: w[k] for k in w if k not in ("check", "op", "key")}
    mon = check_case(case, {}, {}, w.get("tier", "quick"))
    out = [v for v in mon.viol if v["witness"].get("check") == w.get("check") and v["witness"].get("op") == w.get("op")]
    out = out or mon.viol
    for v in out:
        v["what"] = f"key={v['key']} " + v["what"]
    return out
