"""C11 — temporal requirements accept exactly the traces satisfying the formula.

History + executable reference model: generated `require <formula>` programs whose atoms read a scripted
truth table indexed by the current step are run through the real compiler and the real
Simulator.simulate; the accept/reject verdict and the rejection step are compared with an independent
finite-trace LTL evaluator (rt/ltlf.py).
"""

import itertools
import random

PROPERTY = "C11"
LEVEL = "exploration"
RULE = (
    "formulas over always/eventually/next/until/implies/and/or/not enumerated exhaustively to a depth "
    "bound (sampled above it), printed with minimal and with full parentheses, placed at top level, in "
    "a setup block, in the setup block of a sub-scenario started at step s (ending before or with the "
    "simulation) and directly in compose blocks; every truth-value trace up to a length bound plus "
    "seeded longer ones. A (formula, placement) pair is non-trivial when both accepted and rejected "
    "traces were observed for it; distinct = distinct (formula, placement, style) triples."
)
ASSUMPTIONS = [
    "atoms are side-effect-free reads of a scripted truth table indexed by Simulation.currentTime",
    "reference semantics: finite-trace LTL with strong next / strong until (rt/ltlf.py)",
    "existence of a satisfying continuation is searched up to 3 extra states (definite when found)",
]
MIN_COUNTERS = {
    "quick": {"sim_runs": 5000, "accepted": 500, "rejected_in_run": 500, "rejected_at_end": 100},
    "thorough": {"sim_runs": 500000, "accepted": 50000, "rejected_in_run": 50000, "rejected_at_end": 10000},
}

PLACEMENTS = ("top", "setup", "sub", "sub_long", "compose_sub", "compose_top", "top_limit", "sub_limit")

TEMPLATES = {
    "top": """
import verif_script as V
ego = new Object
require {F}
""",
    "setup": """
import verif_script as V
scenario Main():
    setup:
        ego = new Object
        require {F}
""",
    # sub-scenario started at step S whose compose block runs D more steps
    "sub": """
import verif_script as V
scenario Sub():
    setup:
        require {F}
    compose:
        for _i in range({D}):
            wait
scenario Main():
    setup:
        ego = new Object
    compose:
        for _i in range({S}):
            wait
        do Sub()
        while True:
            wait
""",
    "compose_sub": """
import verif_script as V
scenario Sub():
    compose:
        require {F}
        for _i in range({D}):
            wait
scenario Main():
    setup:
        ego = new Object
    compose:
        for _i in range({S}):
            wait
        do Sub()
        while True:
            wait
""",
    "compose_top": """
import verif_script as V
scenario Main():
    setup:
        ego = new Object
    compose:
        for _i in range({S}):
            wait
        require {F}
        while True:
            wait
""",
}
TEMPLATES["sub_long"] = TEMPLATES["sub"]
# scope ended by `terminate after`: the state of the step at which the limit expires still counts
TEMPLATES["top_limit"] = """
import verif_script as V
ego = new Object
terminate after {D} steps
require {F}
"""
TEMPLATES["sub_limit"] = """
import verif_script as V
scenario Sub():
    setup:
        terminate after {D} steps
        require {F}
    compose:
        while True:
            wait
scenario Main():
    setup:
        ego = new Object
    compose:
        for _i in range({S}):
            wait
        do Sub()
        while True:
            wait
"""


def _formulas(tier, seed):
    from rt import ltlf

    rng = random.Random(seed * 7919 + 11)
    d1 = ltlf.enumerate_formulas(1, 2)
    d2 = [f for f in ltlf.enumerate_formulas(2, 2) if ltlf.depth(f) == 2]
    out = list(d1)
    n2, n3, n3atoms = (200, 40, 16) if tier == "quick" else (700, 300, 60)
    if n2 >= len(d2):
        out += d2
    else:
        out += rng.sample(d2, n2)

    def rand_formula(d, na):
        if d == 0 or (d < 3 and rng.random() < 0.15):
            return ("a", rng.randrange(na))
        if rng.random() < 0.45:
            return (rng.choice(ltlf.UNARY), rand_formula(d - 1, na))
        return (rng.choice(ltlf.BINARY), rand_formula(d - 1, na), rand_formula(d - 1, na))

    seen = set(out)
    for depth_, na, n in ((3, 2, n3), (3, 3, n3atoms), (4, 2, n3 // 3)):
        c = 0
        tries = 0
        while c < n and tries < 50 * n:
            tries += 1
            f = rand_formula(depth_, na)
            if f in seen or ltlf.depth(f) < 2:
                continue
            seen.add(f)
            out.append(f)
            c += 1
    return out


def plan(tier, seed):
    fs = _formulas(tier, seed)
    n = 16 if tier == "quick" else 64
    shards = [{"formulas": [], "timeout": 1700 if tier == "quick" else 3400} for _ in range(n)]
    for i, f in enumerate(fs):
        shards[i % n]["formulas"].append(f)
    for i, s in enumerate(shards):
        s["shard"] = i
    return [s for s in shards if s["formulas"]]


def _tup(f):
    return tuple(_tup(x) if isinstance(x, list) else x for x in f)


def _traces(na, tier, rng):
    states = list(itertools.product((False, True), repeat=na))
    maxL = (3 if na == 2 else 2) if tier == "quick" else (4 if na == 2 else 3)
    maxL = max(maxL, 2)
    out = []
    for L in range(2, maxL + 1):  # maxSteps = L-1 must be >= 1 (0 means no limit)
        out.extend(list(t) for t in itertools.product(states, repeat=L))
    extra = 40 if tier == "quick" else 120
    for _ in range(extra):
        L = rng.randint(maxL + 1, maxL + 3)
        out.append([rng.choice(states) for _ in range(L)])
    return out


class _Probe:
    pass


def _make_sim():
    from scenic.core.simulators import DummySimulator

    class ProbeSimulator(DummySimulator):
        last = None

        def createSimulation(self, scene, **kw):
            self.last = None
            try:
                return super().createSimulation(scene, **kw)
            except BaseException as e:
                sim = getattr(e, "simulation", None)
                self.last = (type(e).__name__, getattr(sim, "currentTime", None), str(e)[:200])
                raise

    return ProbeSimulator()


def run_one(f, placement, style, tr, scenario, S, D, simulator):
    """Run the real code on one trace. Returns (outcome, t) with outcome in
    accept | reject(t) | genreject | error(text)"""
    from rt import su
    from scenic.core.distributions import RejectionException

    na = len(tr[0])
    su.script.TABLE = {i: [st[i] for st in tr] for i in range(na)}
    su.script.LOG.clear()
    try:
        scene, _ = scenario.generate(maxIterations=1, verbosity=0)
    except RejectionException:
        return ("genreject", 0)
    try:
        sim = simulator.simulate(scene, maxSteps=len(tr) - 1, maxIterations=1, verbosity=0)
    except Exception as e:  # noqa
        return ("error", f"{type(e).__name__}: {e}"[:300])
    if sim is None:
        return ("reject", simulator.last[1] if simulator.last else None)
    return ("accept", sim.currentTime)


def expected_window(placement, L, S, D):
    """(first step, last step) of the requirement's scope; None if the statement never takes effect."""
    if placement in ("top", "setup"):
        return (0, L - 1)
    if placement == "top_limit":
        return (0, min(D, L - 1))
    if S > L - 1:
        return None  # simulation ends before the statement runs
    return (S, min(S + D, L - 1)) if placement != "compose_top" else (S, L - 1)


def judge(f, placement, tr, S, D, outcome):
    """Compare with the reference.  Returns None if consistent else (key, what)."""
    from rt import ltlf

    L = len(tr)
    win = expected_window(placement, L, S, D)
    kind, t = outcome
    if kind == "error":
        return (None, f"simulate raised {t}")
    if win is None:
        if kind != "accept":
            return (None, f"requirement never took effect but run was {kind}")
        return None
    lo, hi = win
    w = tr[lo : hi + 1]
    temporal = ltlf.is_temporal(f)
    if not temporal:
        w = w[:1]
    sat = ltlf.holds(f, w)
    known = None
    if ltlf.has_until_under_offset(f):
        known = "rv_ltl.until-under-offset"
    if kind == "accept":
        if not sat:
            if known and ltlf.holds_rvltl_bug(f, w):
                return (known, "accepted a trace violating the formula (until evaluated at offset)")
            return (None, "accepted a trace that violates the formula")
        return None
    # rejected
    trej = 0 if kind == "genreject" else t
    if kind == "genreject" and placement not in ("top", "setup", "top_limit"):
        return (None, "scene generation rejected although the requirement is dynamic")
    if trej is None:
        return (None, "rejection without a simulation attached")
    if trej < lo or trej > hi:
        # a rejection outside the scope of the requirement
        return (None, f"rejected at step {trej} outside the requirement's scope [{lo},{hi}]")
    if sat and (trej == hi or not temporal):
        if known and not ltlf.holds_rvltl_bug(f, w):
            return (known, "rejected a trace satisfying the formula (until evaluated at offset)")
        return (None, f"rejected (at step {trej}) a trace that satisfies the formula")
    if trej < hi and temporal:
        prefix = tr[lo : trej + 1]
        if ltlf.satisfiable_extension(f, prefix, len(tr[0]), extra=3):
            if known:
                return (known, "rejected early although a continuation satisfies the formula")
            return (None, f"rejected at step {trej} although a continuation satisfies the formula")
    # `always p` with p non-temporal: must be rejected at the first step where p is false
    if f[0] == "always" and not ltlf.is_temporal(f[1]):
        first = next((k for k in range(lo, hi + 1) if not ltlf.holds(f[1], [tr[k]])), None)
        if first is not None and trej != first:
            return (None, f"always-violation at step {first} only rejected at step {trej}")
    if not sat and not temporal and trej != lo:
        return (None, f"non-temporal requirement false at step {lo} rejected at step {trej}")
    return None


def _compile(f, placement, style, S, D):
    from rt import ltlf, su

    src = TEMPLATES[placement].format(F=ltlf.fmt(f, style=style), S=S, D=D)
    return src, su.compile_scenic(src)


def run_shard(spec):
    from rt import ltlf, su

    tier = spec["tier"]
    rng = random.Random(spec["seed"] * 1000003 + spec["shard"])
    res = {"evaluations": 0, "nontrivial": [], "counters": {}, "samples": [], "violations": [], "skipped": {}}
    C = res["counters"]

    def bump(k, n=1):
        C[k] = C.get(k, 0) + n

    simulator = _make_sim()
    reported = set()
    for fl in spec["formulas"]:
        f = _tup(fl)
        na = ltlf.natoms(f)
        na = max(na, 2)
        traces = _traces(na, tier, rng)
        for placement in PLACEMENTS:
            style = "min" if rng.random() < 0.7 else "full"
            S = rng.choice((0, 1, 2)) if placement not in ("top", "top_limit") else 0
            D = rng.choice((0, 1, 2)) if placement != "sub_long" else 50
            if placement in ("top_limit", "sub_limit"):
                D = rng.choice((1, 2, 3))
            try:
                src, scenario = _compile(f, placement, style, S, D)
            except Exception as e:
                bump("compile_failures")
                text = ltlf.fmt(f, style=style)
                key = None
                if ") implies" in text and type(e).__name__ == "ScenicParseError":
                    key = "grammar.temporal-group-before-implies"
                sig = (key or text, type(e).__name__)
                if sig not in reported:
                    reported.add(sig)
                    res["violations"].append(
                        {
                            "key": key,
                            "what": f"documented formula rejected by the front end: require {text} -> {type(e).__name__}: {str(e)[:120]}",
                            "witness": {"formula": f, "placement": placement, "style": style, "S": S, "D": D, "kind": "compile"},
                        }
                    )
                continue
            bump("programs_compiled")
            mode = "int" if rng.random() < 0.3 else "bool"
            su.script.EXTRA["mode"] = mode
            bump("atom_values_" + mode)
            bump("placement_" + placement)
            seen = set()
            for tr in traces:
                out = run_one(f, placement, style, tr, scenario, S, D, simulator)
                res["evaluations"] += 1
                bump("sim_runs")
                kind = out[0]
                L = len(tr)
                win = expected_window(placement, L, S, D)
                if kind == "accept":
                    bump("accepted")
                elif kind in ("reject", "genreject"):
                    if win and out[1] is not None and (0 if kind == "genreject" else out[1]) >= win[1]:
                        bump("rejected_at_end")
                    else:
                        bump("rejected_in_run")
                    if kind == "genreject":
                        bump("rejected_at_scene_generation")
                seen.add(kind if kind != "genreject" else "reject")
                bad = judge(f, placement, tr, S, D, out)
                if bad is not None:
                    key, what = bad
                    if key is None and placement == "compose_top" and kind == "error" and "'tuple' object has no attribute 'append'" in str(out[1]):
                        key = "dynamic-require.top-level-compose-crash"
                    if key is None and placement == "compose_sub" and kind == "accept":
                        key = "dynamic-require.compose-not-monitored"
                    sig = (key, placement, what if key is None else "")
                    bump("disagreements")
                    if sig in reported and len(res["violations"]) > 40:
                        continue
                    reported.add(sig)
                    if len(res["violations"]) < 200:
                        res["violations"].append(
                            {
                                "key": key,
                                "what": f"[{placement}] require {ltlf.fmt(f, style=style)}: {what}; trace={[[int(b) for b in st] for st in tr]} S={S} D={D} atoms={mode} outcome={out}",
                                "witness": {"formula": f, "placement": placement, "style": style, "S": S, "D": D, "trace": [[bool(b) for b in st] for st in tr], "kind": "run", "mode": mode},
                            }
                        )
            if "accept" in seen and "reject" in seen:
                res["nontrivial"].append(su.h([f, placement, style]))
            if len(res["samples"]) < 2:
                res["samples"].append({"program": src, "traces": len(traces)})
    return res


def replay(w):
    f = _tup(w["formula"])
    from rt import ltlf

    try:
        src, scenario = _compile(f, w["placement"], w["style"], w["S"], w["D"])
    except Exception as e:
        return [{"key": None, "what": f"compile failed: {type(e).__name__}: {e}", "witness": w}]
    if w.get("kind") == "compile":
        return []
    tr = [tuple(st) for st in w["trace"]]
    from rt import su

    su.script.EXTRA["mode"] = w.get("mode", "bool")
    out = run_one(f, w["placement"], w["style"], tr, scenario, w["S"], w["D"], _make_sim())
    bad = judge(f, w["placement"], tr, w["S"], w["D"], out)
    if bad:
        return [{"key": bad[0], "what": bad[1] + f" outcome={out}", "witness": w}]
    return []

MANIFEST_ENTRY = {
    "technique": "runtime monitoring: history (accept/reject + rejection step of real simulations) checked against an executable finite-trace LTL reference model",
    "text": "Real compiler + real Simulator.simulate are driven over every formula up to depth 2 (sampled at depth 3-4) x every truth-value trace up to length 3-4 (plus seeded longer ones) x six placements of the require statement; verdict and rejection step are compared with an independent 30-line LTLf evaluator. Bounded exploration: held on the executions driven, nothing beyond the bounds.",
    "note": "Trusts rt/ltlf.py (independent evaluator), the DummySimulator step loop being the one real simulators share, and that atoms are pure reads of the scripted table. Third-party rv_ltl until-at-offset defect is a listed known finding, matched only when the real verdict equals a model of that quirk.",
}
