"""Regenerate MANIFEST.json checks / not_applicable from checks/*.py metadata (MANIFEST_ENTRY dicts)."""
import importlib, json, os, sys
sys.path.insert(0, os.path.dirname(os.path.abspath(__file__)))
props = [json.loads(l) for l in open('properties.jsonl')]
man = json.load(open('MANIFEST.json'))
checks = []; na = []; served = []
enabled = set(open('enabled_checks.txt').read().split())
for p in props:
    pid = p['id']
    path = f'checks/{pid.lower()}.py'
    if os.path.exists(path) and pid in enabled:
        mod = importlib.import_module(f'checks.{pid.lower()}')
        e = getattr(mod, 'MANIFEST_ENTRY', None)
        if e and not getattr(mod, 'DISABLED', False):
            checks.append({
                "property_id": pid,
                "quick_cmd": f"./check {pid} --tier quick",
                "thorough_cmd": f"./check {pid} --tier thorough",
                "evidence_file": f"/verif/evidence/{pid}.json",
                "replay_cmd_template": f"./check {pid} --replay {{path}}",
                "engine": "rt-harness",
                "level_claimed": {"category": mod.LEVEL, "text": e['text'], "design_ref": e.get('design_ref', f'DESIGN.md §2 {pid}')},
                "level_note": e['note'],
                "technique": e['technique'],
            })
            served.append(pid)
            continue
    na.append({"property_id": pid, "reason": "check not yet built in this round (runtime monitoring applies; see DESIGN.md §2 " + pid + ")"})
man['checks'] = checks; man['not_applicable'] = na
man['engines'][0]['serves_properties'] = served
json.dump(man, open('MANIFEST.json', 'w'), indent=1)
print(len(checks), 'checks;', len(na), 'not claimed')
