import json, sys
pid = sys.argv[1]
p = [json.loads(l) for l in open('/verif/properties.jsonl') if json.loads(l)['id'] == pid][0]
print(f"""You are given a git worktree of the open-source Scenic project (probabilistic scenario DSL, Python) at /tmp/mut-{pid} (a detached checkout; the Python package is under src/scenic, tests under tests/, docs under docs/). Work ONLY inside that directory. Do not look at or use anything under /verif or /repo.

Here is a semantic property that the code base is supposed to satisfy:

  Title: {p['title']}
  Statement: {p['statement']}
  Quantified over: {p['quantifier']['text']}
  Code areas involved: {', '.join(p['anchors']['files'])}

Your task: produce ONE realistic change to the Scenic source (a plausible bug a maintainer could introduce in a refactoring or "optimisation": a few lines, not vandalism) that BREAKS this property while the project still compiles/imports and its EXISTING test-suite still passes. The break must need something specific to manifest — a particular multi-step sequence, an unusual input or configuration, a particular interleaving/order, or two cooperating sites that each look fine alone — NOT something ordinary use or the simplest example would expose at once.

How to run things: use the interpreter /venv/bin/python and ALWAYS set PYTHONPATH=/tmp/mut-{pid}/src so that `import scenic` comes from this worktree (the default install points elsewhere). If you edit src/scenic/syntax/scenic.gram, regenerate the parser with `cd /tmp/mut-{pid} && /venv/bin/python -m pegen src/scenic/syntax/scenic.gram -o src/scenic/syntax/parser.py -q` (parser.py is generated and git-ignored; generate it once anyway before running tests if it does not exist). Run the relevant existing tests, e.g. `cd /tmp/mut-{pid} && PYTHONPATH=/tmp/mut-{pid}/src /venv/bin/python -m pytest -q -p no:cacheprovider -n 4 tests/syntax tests/core -x -q` (the full suite takes ~20 minutes on a busy machine; run at least tests/syntax and tests/core, which cover the areas above; they must pass with your change). tests/utils.py shows idioms for compiling Scenic code from strings and running simulations with the DummySimulator. The machine is heavily loaded: be economical, use -n 4 at most.

Deliverables (all inside /tmp/mut-{pid}/):
 1. the source change itself left applied in the worktree, and saved as /tmp/mut-{pid}/patch.diff (`git diff > patch.diff`, must not include parser.py or the files below);
 2. /tmp/mut-{pid}/demo.py — a small self-contained demonstration program (run as `PYTHONPATH=<src> /venv/bin/python demo.py`, exit code 0 = property respected, exit code 1 = property violated, printing what it observed) that FAILS with your change and PASSES on the original code (verify both: use `git stash` / `git stash pop` or `git diff`/`git apply -R`);
 3. /tmp/mut-{pid}/meta.json with keys: "property" ("{pid}"), "summary" (one sentence: what the change does), "needs" (what specific circumstance is needed for the break to manifest), "tests_run" (the pytest command(s) you ran and their result), "demo_result_with_change", "demo_result_without_change".
Finish with a short report of the above. Do not commit anything.""")
