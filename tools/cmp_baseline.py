"""usage: python3 tools/cmp_baseline.py <junit.xml> : lists BASELINE stable_pass tests that did not pass in the given run"""
import json, sys, xml.etree.ElementTree as ET
base = json.load(open('/root/.vp/BASELINE.json'))
stable = set(base['stable_pass'])
res = {}
for tc in ET.parse(sys.argv[1]).iter('testcase'):
    name = tc.get('classname') + '::' + tc.get('name')
    st = 'pass'
    for ch in tc:
        if ch.tag in ('failure', 'error'):
            st = 'fail'
        elif ch.tag == 'skipped':
            st = 'skip'
    res[name] = st
bad = sorted(n for n in stable if res.get(n) != 'pass')
print(len(stable), 'stable;', len(res), 'run;', len(bad), 'stable tests not passing')
for n in bad:
    print(res.get(n), n)
