#!/bin/sh
# usage: runmut.sh <patchfile> <name> <check ids...>  : apply patch in a scratch worktree, run quick tiers
patch=$1; name=$2; shift 2
wt=/tmp/wt-seed-$name
git -C /repo worktree add --detach $wt HEAD -q >/dev/null 2>&1 || { echo "worktree failed"; exit 2; }
if git -C $wt apply $patch; then
  for c in "$@"; do
    out=$(VERIF_REPO=$wt /verif/check $c --tier quick --no-evidence 2>&1); code=$?
    echo "SEEDED $name $c exit=$code nviol=$(echo "$out" | grep -c '^VIOLATION') :: $(echo "$out" | grep "violation key" | head -1 | cut -c1-300) $(echo "$out" | grep '^INCONCLUSIVE' | head -1 | cut -c1-200)"
  done
else echo "patch did not apply"; fi
git -C /repo worktree remove --force $wt
