#!/bin/sh
# usage: verify_seed.sh <id> "<pytest files>" : confirm demo passes w/o patch, fails with; run given tests with patch
id=$1; tests=$2
wt=/tmp/wt-verify-$id
git -C /repo worktree add --detach $wt HEAD -q >/dev/null 2>&1
cd $wt
PYTHONPATH=$wt/src PATH=/venv/bin:$PATH /venv/bin/python /verif/seeded/$id/demo.py > /tmp/w/demo-$id-orig.out 2>&1; echo "demo without change: exit=$?"
git apply /verif/seeded/$id/patch.diff || echo "PATCH FAILED"
if git diff --name-only | grep -q scenic.gram; then /venv/bin/python -m pegen src/scenic/syntax/scenic.gram -o src/scenic/syntax/parser.py -q; fi
PYTHONPATH=$wt/src PATH=/venv/bin:$PATH /venv/bin/python /verif/seeded/$id/demo.py > /tmp/w/demo-$id-mut.out 2>&1; echo "demo with change: exit=$?"
if [ -n "$tests" ]; then PYTHONPATH=$wt/src PATH=/venv/bin:$PATH /venv/bin/python -m pytest -q -p no:cacheprovider $tests 2>&1 | tail -1; fi
cd /; git -C /repo worktree remove --force $wt
